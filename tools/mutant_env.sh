#!/bin/sh
# Prepare (or refresh) an isolated copy for mutant runs: /tmp/mut/{repo,harness,golden,vd,target}
# so that /repo and /verif are never touched while a mutant is applied.
set -e
M=/tmp/mut
mkdir -p $M/vd/evidence $M/vd/target
if [ ! -d $M/repo ]; then git -C /repo worktree add -q --detach $M/repo HEAD; fi
git -C $M/repo checkout -q --detach "$(git -C /repo rev-parse HEAD)"
git -C $M/repo checkout -q -- .
rsync -a --delete --exclude target /verif/harness/ $M/harness/
rsync -a --delete /verif/golden/ $M/golden/
sed -i "s|path = \"/repo\"|path = \"$M/repo\"|" $M/harness/Cargo.toml
sed -i "s|target-dir = \"../target\"|target-dir = \"$M/target\"|" $M/harness/.cargo/config.toml
ln -sfn /verif/known_findings.jsonl $M/vd/known_findings.jsonl
ln -sfn /verif/regress $M/vd/regress
echo "mutant environment ready in $M"
