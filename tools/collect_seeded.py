#!/usr/bin/env python3
"""Collect confirmed seeded changes from the sub-agents' output directories into /verif/seeded/
and print the sensitivity table (which checks catch which change)."""
import glob, json, os, re, shutil, sys

OUT = "/verif/seeded"
confirm = {}
for f in glob.glob("/tmp/mut/confirm*.log") + glob.glob("/tmp/claude-0/-verif/*/tasks/*.output"):
    try:
        for line in open(f, errors="ignore"):
            m = re.match(r"CONFIRM ([CDEM]\d+)-out ([ABC]): suite_with_change_exit=(\d+) demo_with_change_exit=(\d+) demo_without_change_exit=(\d+)", line)
            if m:
                confirm[(m.group(1), m.group(2))] = (int(m.group(3)), int(m.group(4)), int(m.group(5)))
    except Exception:
        pass
results = {}
def qnum(f):
    m = re.search(r"q(\d+)\.log", f)
    return int(m.group(1)) if m else 0
for f in sorted(glob.glob("/tmp/mut/q*.log"), key=qnum):
    for line in open(f):
        # round-4 directories are called Mxx-out; logs before q13 used that prefix for my own mutants
        if "patch=M" in line and qnum(f) < 13:
            continue
        m = re.match(r"RESULT patch=([CDEM]\d+)-out/([ABC])[^ ]* check=(C\d+) exit=(\d+) secs=(\d+) ?(.*)", line)
        if m:
            key = (m.group(1), m.group(2))
            sigs = re.findall(r"signature=(\S+)", m.group(6))
            results.setdefault(key, {})[m.group(3)] = (int(m.group(4)), int(m.group(5)), sigs[:2])
rows = []
for d in sorted(glob.glob("/tmp/wt/[CDEM]*-out")):
    prop = os.path.basename(d)[:3]
    for x in "ABC":
        patches = glob.glob(f"{d}/{x}*.patch.diff")
        if not patches:
            continue
        key = (prop, x)
        c = confirm.get(key)
        ok = c is not None and c[0] == 0 and c[1] != 0 and c[2] == 0
        if not ok:
            print(f"NOT CONFIRMED {key}: {c}", file=sys.stderr)
            continue
        real_prop = "C" + prop[1:]
        if prop[0] == "M":
            real_prop = "?"
            for mt in glob.glob(f"{d}/{x}*.meta.txt"):
                m = re.search(r"PROPERTY:\s*(C\d\d)", open(mt, errors="ignore").read())
                if m:
                    real_prop = m.group(1)
        name = f"{real_prop}-{x}" if prop[0] == "C" else (f"{real_prop}-r2-{x}" if prop[0] == "D" else (f"{real_prop}-r3-{x}" if prop[0] == "E" else f"mod-{prop}-{x}"))
        dst = f"{OUT}/{name}"
        os.makedirs(dst, exist_ok=True)
        shutil.copy(patches[0], f"{dst}/patch.diff")
        for demo in glob.glob(f"{d}/{x}*.demo.*"):
            shutil.copy(demo, f"{dst}/demo{os.path.splitext(demo)[1]}")
        meta_txt = ""
        for mt in glob.glob(f"{d}/{x}*.meta.txt"):
            meta_txt = open(mt, errors="ignore").read()
        res = results.get(key, {})
        caught = sorted(k for k, v in res.items() if v[0] == 1)
        missed = sorted(k for k, v in res.items() if v[0] == 0)
        inconclusive = sorted(k for k, v in res.items() if v[0] not in (0, 1))
        meta = {
            "breaks_property": real_prop,
            "author": ("sub-agent that was given one part of the sources, the list of the 20 properties and its own scratch worktree (round 4, module-driven)" if prop[0] == "M" else "sub-agent that saw only the property text and its own scratch worktree") + ("" if prop[0] in "CM" else " (later round: it was also told, in one or two lines each, which changes the earlier rounds had delivered, and asked for different mechanisms)"),
            "what_it_needs_to_manifest": meta_txt.strip(),
            "confirmed_by_me": {
                "how": "tools/confirm_mutant.sh in the scratch worktree /tmp/mut/repo-confirm: cargo test --workspace --offline with the change; the demonstration as tests/demo_x.rs with and without the change",
                "suite_passes_with_change": c[0] == 0,
                "demonstration_fails_with_change": c[1] != 0,
                "demonstration_passes_without_change": c[2] == 0,
            },
            "checks_run_against_it": {k: {"exit": v[0], "seconds": v[1], "signatures": v[2]} for k, v in sorted(res.items())},
            "how_checks_were_run": "tools/try_mutant.sh <patch> <IDs>: patch applied to an isolated worktree copy of /repo, harness copy rebuilt against it, quick tier of each listed check",
            "caught_by": caught,
            "not_caught_by": missed,
            "inconclusive": inconclusive,
        }
        json.dump(meta, open(f"{dst}/meta.json", "w"), indent=1)
        first = meta_txt.strip().splitlines()[0][:110] if meta_txt.strip() else ""
        rows.append((name, ", ".join(f"{k} ({res[k][1]} s)" for k in caught) or "-", ", ".join(missed) or "-", ", ".join(inconclusive) or "-", first))
print("| change | caught by (time to failure incl. shrinking) | run but silent | inconclusive |")
print("|---|---|---|---|")
for r in rows:
    print(f"| {r[0]} | {r[1]} | {r[2]} | {r[3]} |")
