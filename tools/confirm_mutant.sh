#!/bin/sh
# usage: tools/confirm_mutant.sh <out-dir> <X>    (X = A or B; files <out-dir>/X.patch.diff, X.demo.rs)
# Confirms in the isolated worktree /tmp/mut/repo: suite passes with the change, demo fails with it, demo passes without.
M=/tmp/mut
D="$1"; X="$2"
R=$M/repo-confirm
export CARGO_TARGET_DIR=$M/target-debug
git -C $R checkout -q -- . ; rm -rf $R/tests
PATCH=$(ls $D/$X*.patch.diff 2>/dev/null | head -1)
DEMO=$(ls $D/$X*.demo.rs 2>/dev/null | head -1)
[ -f "$PATCH" ] || { echo "CONFIRM $D $X: no patch"; exit 2; }
FEAT=""
if [ -f "$DEMO" ] && grep -q "serde" "$DEMO"; then FEAT="--features serde"; fi
git -C $R apply "$PATCH" || { echo "CONFIRM $D $X: patch does not apply"; exit 2; }
(cd $R && cargo test --workspace --offline >$M/confirm-suite.log 2>&1); SUITE=$?
DEMO_WITH=skip; DEMO_WITHOUT=skip
if [ -f "$DEMO" ]; then
    mkdir -p $R/tests && cp "$DEMO" $R/tests/demo_x.rs
    (cd $R && cargo test --offline $FEAT --test demo_x >$M/confirm-demo-with.log 2>&1); DEMO_WITH=$?
    git -C $R checkout -q -- .
    (cd $R && cargo test --offline $FEAT --test demo_x >$M/confirm-demo-without.log 2>&1); DEMO_WITHOUT=$?
fi
git -C $R checkout -q -- . ; rm -rf $R/tests
echo "CONFIRM $(basename $D) $X: suite_with_change_exit=$SUITE demo_with_change_exit=$DEMO_WITH demo_without_change_exit=$DEMO_WITHOUT"
