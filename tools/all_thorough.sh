#!/bin/sh
# usage: tools/all_thorough.sh [ID...]   runs thorough tiers sequentially, one summary line each
cd "$(dirname "$0")/.." || exit 2
IDS="${@:-C04 C15 C11 C13 C09 C08 C20 C03 C16 C05 C02 C10 C07 C06 C18 C17 C14 C12 C19 C01}"
for id in $IDS; do
  S=$(date +%s)
  OUT=$(./check $id thorough 2>&1); RC=$?
  E=$(date +%s)
  echo "THOROUGH $id exit=$RC secs=$((E-S)) :: $(echo "$OUT" | grep -E "^C[0-9]+ thorough|fuzz campaign|VIOLATION|INCONCLUSIVE" | tr '\n' ' ' | cut -c1-700)"
done
