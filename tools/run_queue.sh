#!/bin/sh
# usage: tools/run_queue.sh <queue-file>   each line: <patch> <ID>...
while read -r PATCH IDS; do
    [ -z "$PATCH" ] && continue
    /verif/tools/try_mutant.sh $PATCH $IDS
done < "$1"
