#!/bin/sh
# usage: tools/all_quick.sh <seed>...   runs every quick check with each seed; prints one line per check
cd /verif && ./check build >/dev/null || exit 2
for seed in "$@"; do
  for id in C01 C02 C03 C04 C05 C06 C07 C08 C09 C10 C11 C12 C13 C14 C15 C16 C17 C18 C19 C20; do
    S=$(date +%s)
    OUT=$(VERIF_SEED=$seed ./target/release/vcheck run $id quick 2>&1); RC=$?
    E=$(date +%s)
    echo "seed=$seed $id exit=$RC secs=$((E-S)) $(echo "$OUT" | grep -E "VIOLATION|INCONCLUSIVE" | head -2 | tr '\n' ' ' | cut -c1-200)"
  done
done
