#!/usr/bin/env python3
"""Round 5: collect confirmed seeded changes from /tmp/wt5/<ID>-out into /verif/seeded/<ID>-r5-A.
Reads /tmp/mut/confirm_r5.log (tools/confirm_mutant.sh lines) and /tmp/mut/q_r5.log (tools/try_mutant.sh lines)."""
import glob, json, os, re, shutil, sys

OUT = "/verif/seeded"
confirm, results = {}, {}
for line in open("/tmp/mut/confirm_r5.log", errors="ignore"):
    m = re.match(r"CONFIRM (C\d+)-out ([ABC]): suite_with_change_exit=(\d+) demo_with_change_exit=(\d+) demo_without_change_exit=(\d+)", line)
    if m:
        confirm[(m.group(1), m.group(2))] = tuple(int(m.group(i)) for i in (3, 4, 5))
for line in open("/tmp/mut/q_r5.log", errors="ignore"):
    m = re.match(r"RESULT patch=(C\d+)-out/([ABC])[^ ]* check=(C\d+) exit=(\d+) secs=(\d+) ?(.*)", line)
    if m:
        sigs = re.findall(r"signature=(\S+)", m.group(6))
        results.setdefault((m.group(1), m.group(2)), {})[m.group(3)] = (int(m.group(4)), int(m.group(5)), sigs[:2])
for d in sorted(glob.glob("/tmp/wt5/C*-out")):
    prop = os.path.basename(d)[:3]
    for x in "AB":
        patches = glob.glob(f"{d}/{x}*.patch.diff")
        if not patches:
            continue
        c = confirm.get((prop, x))
        if not (c and c[0] == 0 and c[1] != 0 and c[2] == 0):
            print(f"NOT CONFIRMED {prop} {x}: {c}", file=sys.stderr)
            continue
        dst = f"{OUT}/{prop}-r5-{x}"
        os.makedirs(dst, exist_ok=True)
        shutil.copy(patches[0], f"{dst}/patch.diff")
        for demo in glob.glob(f"{d}/{x}*.demo.*"):
            shutil.copy(demo, f"{dst}/demo{os.path.splitext(demo)[1]}")
        notes = "".join(open(n, errors="ignore").read() for n in glob.glob(f"{d}/{x}*.notes.txt"))
        res = results.get((prop, x), {})
        caught = sorted(k for k, v in res.items() if v[0] == 1)
        meta = {
            "breaks_property": prop,
            "author": "round-5 sub-agent that saw only the property text and its own scratch worktree (/tmp/wt5/%s)" % prop,
            "what_it_needs_to_manifest": notes[:6000],
            "confirmed_by_me": {
                "how": "tools/confirm_mutant.sh in the scratch worktree /tmp/mut/repo-confirm: cargo test --workspace --offline with the change; the demonstration as tests/demo_x.rs with and without the change",
                "suite_passes_with_change": True,
                "demonstration_fails_with_change": True,
                "demonstration_passes_without_change": True,
            },
            "checks_run_against_it": {k: {"exit": v[0], "seconds": v[1], "signatures": v[2]} for k, v in res.items()},
            "how_checks_were_run": "tools/try_mutant.sh <patch> <IDs>: patch applied to an isolated worktree copy of /repo, harness copy rebuilt against it, quick tier of each listed check",
            "caught_by": caught,
        }
        json.dump(meta, open(f"{dst}/meta.json", "w"), indent=1)
        print(f"| {prop}-r5-{x} | {prop} | " + ", ".join(f"{k}: exit {v[0]} in {v[1]} s ({' '.join(v[2]) or '-'})" for k, v in sorted(res.items())) + f" | {'caught' if caught else 'MISSED'} |")
