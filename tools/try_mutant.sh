#!/bin/sh
# usage: tools/try_mutant.sh <patch-file> <ID> [<ID> ...]
# Applies the patch to the isolated copy /tmp/mut/repo, rebuilds the harness copy against it,
# runs the quick tier of the given checks, reverts. Prints one line per check.
M=/tmp/mut
P="$1"; shift
git -C $M/repo checkout -q -- . || exit 2
if ! git -C $M/repo apply "$P"; then echo "PATCH-DOES-NOT-APPLY $P"; exit 2; fi
(cd $M/harness && CARGO_NET_OFFLINE=true cargo build --release --offline >$M/build.log 2>&1) || { echo "BUILD-FAILED $P"; tail -5 $M/build.log; git -C $M/repo checkout -q -- .; exit 2; }
for id in "$@"; do
    if [ "$id" = "C19" ]; then
        (cd $M/repo && cargo build --release --offline --bin simc --target-dir $M/target/repo >>$M/build.log 2>&1)
    fi
    START=$(date +%s)
    OUT=$(VERIF_DIR=$M/vd VERIF_REPO=$M/repo VCHECK_SIMC=$M/target/repo/release/simc timeout 1500 $M/target/release/vcheck run "$id" quick 2>&1)
    CODE=$?
    END=$(date +%s)
    SIG=$(echo "$OUT" | grep -o "signature=[^ ]*" | head -3 | tr '\n' ' ')
    echo "RESULT patch=$(basename $(dirname $P))/$(basename $P) check=$id exit=$CODE secs=$((END-START)) $SIG"
done
git -C $M/repo checkout -q -- .
