#!/bin/sh
# usage: tools/fuzz_campaign.sh <ID> <stream> <total-runs> <max-len-bytes>
# Coverage-guided campaign (libFuzzer through cargo-fuzz) over one tape stream of a property.
# Exit 0: no reportable crash; exit 1: a crash that reproduces through `vcheck replay` (VIOLATION line
# printed by vcheck); exit 2: build problem, timeout / oom artifact, crash that does not reproduce.
set -u
V=${VERIF_DIR:-/verif}
ID="$1"; STREAM="$2"; RUNS="$3"; MAXLEN="$4"
SEED=${VERIF_SEED:-1}
WORKERS=${VCHECK_FUZZ_WORKERS:-8}
# Optimised build without AddressSanitizer and without debug assertions: the tested code is safe
# Rust, and with cargo-fuzz's defaults one execution of a program-level stream costs a second
# (measured: 1.6 exec/s against 30 exec/s per worker, 700 MB against 40 MB resident).
BIN="$V/target/fuzz-fast/x86_64-unknown-linux-gnu/release/tape"
(cd "$V/harness" && CARGO_NET_OFFLINE=true cargo +nightly fuzz build -O -s none --target-dir "$V/target/fuzz-fast" tape >"$V/target/fuzz-build.log" 2>&1) || { echo "INCONCLUSIVE property=$ID fuzz target does not build (target/fuzz-build.log)"; exit 2; }
[ -x "$BIN" ] || BIN=$(find "$V/target/fuzz-fast" -name tape -type f -perm -u+x 2>/dev/null | head -1)
[ -x "$BIN" ] || { echo "INCONCLUSIVE property=$ID fuzz binary not found"; exit 2; }
CORPUS="$V/target/fuzz-corpus/$ID-$STREAM"; ART="$V/target/fuzz-artifacts/$ID-$STREAM"
rm -rf "$CORPUS" "$ART"; mkdir -p "$CORPUS" "$ART"
"$V/target/release/vcheck" fuzz-seeds "$ID" "$STREAM" "$CORPUS" >/dev/null || exit 2
PER=$((RUNS / WORKERS))
i=0
while [ $i -lt $WORKERS ]; do
    VCHECK_FUZZ_PROP="$ID" VCHECK_FUZZ_STREAM="$STREAM" VCHECK_FUZZ_LOG="$ART/internal.log" \
      "$BIN" "$CORPUS" -runs=$PER -seed=$((SEED * 1000 + i + 1)) -len_control=0 -max_len=$MAXLEN \
      -artifact_prefix="$ART/w$i-" -timeout=600 -report_slow_units=120 -rss_limit_mb=4096 -print_final_stats=1 >"$ART/worker$i.log" 2>&1 &
    i=$((i + 1))
done
wait
CRASHES=$(ls "$ART" 2>/dev/null | grep -c -E '^w[0-9]+-crash-' || true)
SLOW=$(ls "$ART" 2>/dev/null | grep -c -E '^w[0-9]+-(timeout|oom)-' || true)
DONE=$(grep -h -o "Done [0-9]* runs" "$ART"/worker*.log 2>/dev/null | awk '{s+=$2} END {print s+0}')
NCORP=$(ls "$CORPUS" | wc -l)
"$V/target/release/vcheck" fuzz-note "$ID" "$STREAM" "$DONE" "$WORKERS" "$NCORP" "$CRASHES" 2>/dev/null
echo "fuzz campaign property=$ID stream=$STREAM runs=$DONE workers=$WORKERS corpus=$NCORP crash_artifacts=$CRASHES timeout_or_oom_artifacts=$SLOW"
RC=0
for f in "$ART"/w*-crash-*; do
    [ -f "$f" ] || continue
    "$V/target/release/vcheck" fuzz-artifact "$ID" "$STREAM" "$f"
    C=$?
    if [ $C -eq 1 ]; then RC=1; elif [ $C -ne 0 ] && [ $RC -eq 0 ]; then RC=2; fi
    if [ $C -eq 0 ] && [ $RC -eq 0 ]; then echo "INCONCLUSIVE property=$ID libFuzzer artifact $f does not reproduce"; RC=2; fi
done
if [ $RC -eq 0 ] && [ "$SLOW" -gt 0 ]; then echo "INCONCLUSIVE property=$ID libFuzzer reported timeout/oom artifacts in $ART"; RC=2; fi
exit $RC
