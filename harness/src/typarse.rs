//! Small parser for type texts (used for the golden jet table); produces model types.

use crate::model::{builtin_alias, Ty};

struct P<'a> {
    s: &'a [u8],
    i: usize,
}

impl<'a> P<'a> {
    fn ws(&mut self) {
        while self.i < self.s.len() && (self.s[self.i] as char).is_whitespace() {
            self.i += 1;
        }
    }
    fn eat(&mut self, tok: &str) -> bool {
        self.ws();
        if self.s[self.i..].starts_with(tok.as_bytes()) {
            self.i += tok.len();
            true
        } else {
            false
        }
    }
    fn ident(&mut self) -> Option<String> {
        self.ws();
        let st = self.i;
        while self.i < self.s.len() && ((self.s[self.i] as char).is_ascii_alphanumeric() || self.s[self.i] == b'_') {
            self.i += 1;
        }
        if st == self.i {
            None
        } else {
            Some(String::from_utf8_lossy(&self.s[st..self.i]).to_string())
        }
    }
    fn number(&mut self) -> Option<usize> {
        self.ident()?.parse().ok()
    }
    fn ty(&mut self) -> Option<Ty> {
        self.ws();
        if self.eat("(") {
            let mut v = vec![];
            loop {
                if self.eat(")") {
                    break;
                }
                v.push(self.ty()?);
                if self.eat(",") {
                    continue;
                }
                if self.eat(")") {
                    break;
                }
                return None;
            }
            return Some(Ty::Tuple(v));
        }
        if self.eat("[") {
            let el = self.ty()?;
            if !self.eat(";") {
                return None;
            }
            let n = self.number()?;
            if !self.eat("]") {
                return None;
            }
            return Some(Ty::array(el, n));
        }
        let id = self.ident()?;
        match id.as_str() {
            "bool" => Some(Ty::Bool),
            "Either" => {
                if !self.eat("<") {
                    return None;
                }
                let a = self.ty()?;
                if !self.eat(",") {
                    return None;
                }
                let b = self.ty()?;
                if !self.eat(">") {
                    return None;
                }
                Some(Ty::either(a, b))
            }
            "Option" => {
                if !self.eat("<") {
                    return None;
                }
                let a = self.ty()?;
                if !self.eat(">") {
                    return None;
                }
                Some(Ty::option(a))
            }
            "List" => {
                if !self.eat("<") {
                    return None;
                }
                let a = self.ty()?;
                if !self.eat(",") {
                    return None;
                }
                let n = self.number()?;
                if !self.eat(">") {
                    return None;
                }
                Some(Ty::list(a, n))
            }
            s if s.starts_with('u') && s[1..].parse::<u16>().is_ok() => {
                let n: u16 = s[1..].parse().ok()?;
                if [1, 2, 4, 8, 16, 32, 64, 128, 256].contains(&n) {
                    Some(Ty::UInt(n))
                } else {
                    None
                }
            }
            s => builtin_alias(s),
        }
    }
}

pub fn parse_ty(s: &str) -> Option<Ty> {
    let mut p = P { s: s.as_bytes(), i: 0 };
    let t = p.ty()?;
    p.ws();
    if p.i == s.len() {
        Some(t)
    } else {
        None
    }
}

/// Parse a parameter list `(T1, T2, ...)` (top-level commas separate parameters).
pub fn parse_params(s: &str) -> Option<Vec<Ty>> {
    match parse_ty(s)? {
        Ty::Tuple(v) => Some(v),
        _ => None,
    }
}
