//! Small builders for hand-constructed model programs.

use crate::model::*;

pub fn var(n: &str) -> Expr {
    Expr::Var(n.to_string())
}
pub fn int(v: u128, bits: u16) -> Expr {
    Expr::Int(U256::from_u128(v), bits, LitStyle::Dec)
}
pub fn jet(name: &str, args: Vec<Expr>) -> Expr {
    Expr::Call(CallName::Jet(name.to_string()), args)
}
pub fn call(name: &str, args: Vec<Expr>) -> Expr {
    Expr::Call(CallName::Fn(name.to_string()), args)
}
pub fn cast(src: Ty, e: Expr) -> Expr {
    Expr::Call(CallName::Cast(src), vec![e])
}
pub fn assert_(e: Expr) -> Stmt {
    Stmt::Expr(Expr::Call(CallName::Assert, vec![e]))
}
pub fn let_(name: &str, ty: Ty, e: Expr) -> Stmt {
    Stmt::Let(Pat::Id(name.to_string()), ty, e)
}
pub fn let_pat(p: Pat, ty: Ty, e: Expr) -> Stmt {
    Stmt::Let(p, ty, e)
}
pub fn pid(n: &str) -> Pat {
    Pat::Id(n.to_string())
}
pub fn block(stmts: Vec<Stmt>, last: Option<Expr>) -> Expr {
    Expr::Block(stmts, last.map(Box::new))
}
pub fn tuple(v: Vec<Expr>) -> Expr {
    Expr::Tuple(v)
}
pub fn u(bits: u16) -> Ty {
    Ty::UInt(bits)
}
pub fn match_bool(scrut: Expr, on_true: Expr, on_false: Expr) -> Expr {
    Expr::Match {
        kind: MatchKind::Bool,
        scrut: Box::new(scrut),
        left: Box::new(Arm { binder: None, body: on_false }),
        right: Box::new(Arm { binder: None, body: on_true }),
        left_first: false,
    }
}
pub fn match_option(scrut: Expr, on_none: Expr, binder: &str, bty: Ty, on_some: Expr) -> Expr {
    Expr::Match {
        kind: MatchKind::Option,
        scrut: Box::new(scrut),
        left: Box::new(Arm { binder: None, body: on_none }),
        right: Box::new(Arm { binder: Some((binder.to_string(), bty)), body: on_some }),
        left_first: true,
    }
}
pub fn match_either(scrut: Expr, lb: &str, lty: Ty, on_left: Expr, rb: &str, rty: Ty, on_right: Expr) -> Expr {
    Expr::Match {
        kind: MatchKind::Either,
        scrut: Box::new(scrut),
        left: Box::new(Arm { binder: Some((lb.to_string(), lty)), body: on_left }),
        right: Box::new(Arm { binder: Some((rb.to_string(), rty)), body: on_right }),
        left_first: true,
    }
}
pub fn func(name: &str, params: Vec<(&str, Ty)>, ret: Ty, body: Expr) -> Item {
    Item::Fn(FnDef {
        name: name.to_string(),
        params: params.into_iter().map(|(n, t)| (n.to_string(), t)).collect(),
        ret: if ret.is_unit() { None } else { Some(ret) },
        body,
    })
}
pub fn main_fn(stmts: Vec<Stmt>) -> Item {
    Item::Fn(FnDef { name: "main".into(), params: vec![], ret: None, body: Expr::Block(stmts, None) })
}

/// Highest hole index + 1.
pub fn count_holes(p: &Program) -> usize {
    let mut n = 0;
    walk_program(p, &mut |e| {
        if let Expr::Hole(i) = e {
            n = n.max(*i + 1);
        }
    });
    n
}
