//! Seed pools: shipped examples (read from /repo/examples at run time) and static snippets.

use std::sync::OnceLock;

pub struct Example {
    pub name: String,
    pub program: String,
    pub wit_json: Vec<(String, String)>,
    pub args_json: Option<String>,
}

pub fn repo_dir() -> std::path::PathBuf {
    std::env::var("VERIF_REPO").map(std::path::PathBuf::from).unwrap_or_else(|_| "/repo".into())
}

pub fn examples() -> &'static Vec<Example> {
    static E: OnceLock<Vec<Example>> = OnceLock::new();
    E.get_or_init(|| {
        let dir = repo_dir().join("examples");
        let mut names: Vec<String> = vec![];
        let mut all: Vec<String> = vec![];
        if let Ok(rd) = std::fs::read_dir(&dir) {
            for e in rd.flatten() {
                let n = e.file_name().to_string_lossy().to_string();
                all.push(n.clone());
                if let Some(stem) = n.strip_suffix(".simf") {
                    names.push(stem.to_string());
                }
            }
        }
        names.sort();
        all.sort();
        let mut out = vec![];
        for n in names {
            let program = std::fs::read_to_string(dir.join(format!("{n}.simf"))).unwrap_or_default();
            let mut wit_json = vec![];
            for f in &all {
                if f.starts_with(&format!("{n}.")) && f.ends_with(".wit") {
                    if let Ok(t) = std::fs::read_to_string(dir.join(f)) {
                        wit_json.push((f.clone(), t));
                    }
                }
            }
            let args_json = std::fs::read_to_string(dir.join(format!("{n}.args"))).ok();
            out.push(Example { name: n, program, wit_json, args_json });
        }
        out
    })
}

pub const MODULE_SEEDS: &[&str] = &[
    "mod witness {\n    const A: u32 = 1;\n    const B: (u8, bool) = (2, true);\n}",
    "mod param {\n    const KEY: u256 = 0x79be667ef9dcbbac55a06295ce870b07029bfcdb2dce28d959f2815b16f81798;\n}",
    "mod witness { const S: [u8; 4] = 0xdeadbeef; const L: List<u16, 4> = list![1, 2, 3]; }\nmod param { const E: Either<u8, Option<u1>> = Right(Some(1)); }",
    "mod witness {}",
    "mod param {}\nmod witness { const X: [Option<[u8; 2]>; 2] = [Some(0xabcd), None]; }",
    "fn main() {}\nmod witness { const A: u4 = 0b1010; const B: u128 = 0x000102030405060708090a0b0c0d0e0f; const C: (u8,) = (1,); const U: () = (); }",
];

pub const JSON_SEEDS: &[&str] = &[
    "{}",
    "{\"A\": {\"value\": \"1\", \"type\": \"u32\"}}",
    "{\"A\": {\"value\": \"(1, true)\", \"type\": \"(u8, bool)\"}, \"B\": {\"type\": \"List<u8, 4>\", \"value\": \"list![1, 2]\"}}",
    "{\"S\": {\"value\": \"0xdeadbeef\", \"type\": \"[u8; 4]\"}, \"E\": {\"value\": \"Left(None)\", \"type\": \"Either<Option<u8>, ()>\"}}",
    "{\"K\": {\"value\": \"0x79be667ef9dcbbac55a06295ce870b07029bfcdb2dce28d959f2815b16f81798\", \"type\": \"Pubkey\"}}",
];

pub const VALUE_SEEDS: &[&str] = &[
    "0", "1", "255", "0xff", "0b1", "0b01", "0b1010", "0b10101010", "true", "false", "()", "(1,)", "(1, 2)", "(1, 2, 3)",
    "[]", "[1]", "[1, 2]", "[1, 2, 3, 4]", "list![]", "list![1]", "list![1, 2, 3]", "None", "Some(1)", "Left(1)", "Right(2)",
    "Some(Left((1, true)))", "0xdeadbeef", "[0xab, 0xcd]", "(0xabcd, [true, false], list![Some(1), None])", "[[1, 2], [3, 4]]",
    "0x0000000000000000000000000000000000000000000000000000000000000001", "(Left(0b0001), Right(()))", "((1))", "{ 1 }", "((), ((),))",
    "0x000102030405060708090a0b0c0d0e0f", "[None, Some(0x0102)]", "list![[1, 2], [3, 4], [5, 6]]",
    "[0x0102, 0x0304]", "list![0x01]", "[0xbe_ef]", "(true, Some([Left(0x00), Right(7)]))",
];

pub const TYPE_SEEDS: &[&str] = &[
    "u1", "u2", "u4", "u8", "u16", "u32", "u64", "u128", "u256", "bool", "()", "(u8,)", "(u8, u16)", "(u8, (bool, u1), ())",
    "[u8; 0]", "[u8; 4]", "[[bool; 2]; 3]", "List<u8, 2>", "List<(u8, bool), 16>", "Option<u8>", "Either<u8, ()>",
    "Either<Option<[u8; 2]>, List<u4, 4>>", "Pubkey", "Signature", "Ctx8", "Amount1", "Option<Signature>", "[Option<Signature>; 3]",
    "(Message64, Point, Gej)", "Option<Option<Option<bool>>>",
];

/// Types (as text) at which every candidate value string is parsed in C06.
pub const VALUE_PARSE_TYPES: &[&str] = &[
    "u1", "u2", "u4", "u8", "u16", "u32", "u64", "u128", "u256", "bool", "()", "(u8,)", "(u8, u16)", "(u4, bool, u1)",
    "[u8; 0]", "[u8; 1]", "[u8; 2]", "[u8; 4]", "[u8; 32]", "[u4; 2]", "[u16; 2]", "[[u8; 2]; 2]", "[bool; 3]",
    "List<u8, 2>", "List<u8, 4>", "List<u4, 8>", "List<[u8; 2], 4>", "Option<u8>", "Option<u4>", "Option<[u8; 2]>",
    "Either<u8, u4>", "Either<u1, ()>", "Either<[u8; 4], u32>", "(u256, [u8; 0])", "Option<Option<u2>>",
    "(Option<[u8; 2]>, List<u8, 2>)", "[Option<[u8; 2]>; 2]", "(u1, u2, u4, u8)", "List<bool, 16>", "Either<(), (u128, u64)>",
    "[[u16; 1]; 2]", "[[u16; 2]; 2]", "List<[bool; 1], 4>", "[[u4; 2]; 1]", "(bool, Option<[Either<[(); 1], u8>; 2]>)",
];
