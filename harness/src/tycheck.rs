//! Independent static checker over the model AST, written from the book and from the rule
//! list in the statement of C04. Shares no code with simfony's analyser.

use std::collections::{BTreeMap, HashMap};

use crate::jets;
use crate::layout;
use crate::model::*;

#[derive(Clone, Debug)]
pub struct FnSig {
    pub params: Vec<(String, Ty)>,
    pub ret: Ty,
}

#[derive(Clone, Debug, Default)]
pub struct Info {
    pub witnesses: BTreeMap<String, Ty>,
    pub params: BTreeMap<String, Ty>,
}

pub type Ill = String;

struct Tc {
    aliases: HashMap<String, Ty>,
    fns: HashMap<String, FnSig>,
    info: Info,
    in_main: bool,
    vars: Vec<Vec<(String, Ty)>>,
}

pub const RESERVED_WORDS: &[&str] = &[
    "fn", "let", "match", "type", "mod", "const", "true", "false", "None", "unwrap", "unwrap_left", "unwrap_right",
    "is_none", "assert", "panic", "dbg", "into", "fold", "for_while", "Either", "Option", "List", "bool", "u1", "u2",
    "u4", "u8", "u16", "u32", "u64", "u128", "u256",
];

impl Tc {
    /// Resolve a written type: every alias must be defined before this point.
    fn resolve(&self, ty: &Ty) -> Result<Ty, Ill> {
        Ok(match ty {
            Ty::Alias(n, _) => self.aliases.get(n).cloned().ok_or_else(|| format!("alias {n} is not defined"))?,
            Ty::Builtin(n, _) => builtin_alias(n).ok_or_else(|| format!("unknown builtin alias {n}"))?.resolve(),
            Ty::Bool => Ty::Bool,
            Ty::UInt(n) => {
                if !UINT_WIDTHS.contains(n) {
                    return Err(format!("no integer type u{n}"));
                }
                Ty::UInt(*n)
            }
            Ty::Either(a, b) => Ty::either(self.resolve(a)?, self.resolve(b)?),
            Ty::Option(a) => Ty::option(self.resolve(a)?),
            Ty::Tuple(v) => Ty::Tuple(v.iter().map(|t| self.resolve(t)).collect::<Result<_, _>>()?),
            Ty::Array(a, n) => Ty::array(self.resolve(a)?, *n),
            Ty::List(a, n) => {
                if *n < 2 || !n.is_power_of_two() {
                    return Err(format!("list bound {n} is not a power of two greater than one"));
                }
                Ty::list(self.resolve(a)?, *n)
            }
        })
    }

    fn lookup(&self, name: &str) -> Option<&Ty> {
        for scope in self.vars.iter().rev() {
            for (n, t) in scope.iter().rev() {
                if n == name {
                    return Some(t);
                }
            }
        }
        None
    }

    fn bind_pattern(&self, p: &Pat, ty: &Ty, out: &mut Vec<(String, Ty)>) -> Result<(), Ill> {
        match (p, ty) {
            (Pat::Id(n), t) => {
                if out.iter().any(|(m, _)| m == n) {
                    return Err(format!("name {n} is bound twice in one pattern"));
                }
                out.push((n.clone(), t.clone()));
                Ok(())
            }
            (Pat::Ignore, _) => Ok(()),
            (Pat::Tuple(ps), Ty::Tuple(ts)) => {
                if ps.len() != ts.len() {
                    return Err(format!("tuple pattern of {} components for a tuple of {}", ps.len(), ts.len()));
                }
                for (p, t) in ps.iter().zip(ts) {
                    self.bind_pattern(p, t, out)?;
                }
                Ok(())
            }
            (Pat::Array(ps), Ty::Array(t, n)) => {
                if ps.len() != *n {
                    return Err(format!("array pattern of {} elements for an array of {n}", ps.len()));
                }
                for p in ps {
                    self.bind_pattern(p, t, out)?;
                }
                Ok(())
            }
            (p, t) => Err(format!("pattern {p:?} cannot destructure {t}")),
        }
    }

    /// Check `e` against the resolved type `ty`.
    fn check(&mut self, e: &Expr, ty: &Ty) -> Result<(), Ill> {
        match e {
            Expr::Bool(_) => {
                if *ty == Ty::Bool {
                    Ok(())
                } else {
                    Err(format!("boolean literal where {ty} is expected"))
                }
            }
            Expr::Int(v, bits, style) => match ty {
                Ty::UInt(n) => match style {
                    LitStyle::Dec => {
                        if *v <= U256::max_of(*n) {
                            Ok(())
                        } else {
                            Err(format!("decimal literal does not fit u{n}"))
                        }
                    }
                    LitStyle::Bin => {
                        if bits == n {
                            Ok(())
                        } else {
                            Err(format!("binary literal of {bits} digits at u{n}"))
                        }
                    }
                    LitStyle::Hex => {
                        if *bits < 8 {
                            // rendered as decimal (no hex form below 8 bits)
                            if *v <= U256::max_of(*n) {
                                Ok(())
                            } else {
                                Err("literal does not fit".to_string())
                            }
                        } else if bits == n {
                            Ok(())
                        } else {
                            Err(format!("hex literal of {} digits at u{n}", bits / 4))
                        }
                    }
                },
                Ty::Array(el, n) if matches!(style, LitStyle::Hex) && *bits >= 8 && **el == Ty::UInt(8) => {
                    if (*bits as usize) / 8 == *n {
                        Ok(())
                    } else {
                        Err("hex literal length differs from the byte array size".to_string())
                    }
                }
                _ => Err(format!("integer literal where {ty} is expected")),
            },
            Expr::RawLit(s) => check_raw_literal(s, ty),
            Expr::HexBytes(b) => match ty {
                Ty::Array(el, n) if **el == Ty::UInt(8) => {
                    if b.len() == *n && !b.is_empty() {
                        Ok(())
                    } else {
                        Err("hex literal length differs from the byte array size".to_string())
                    }
                }
                Ty::UInt(n) if *n >= 8 => {
                    if b.len() * 8 == *n as usize {
                        Ok(())
                    } else {
                        Err("hex literal length differs from the integer width".to_string())
                    }
                }
                _ => Err(format!("hex literal where {ty} is expected")),
            },
            Expr::Var(n) => match self.lookup(n) {
                None => Err(format!("variable {n} is not in scope")),
                Some(t) => {
                    if t == ty {
                        Ok(())
                    } else {
                        Err(format!("variable {n} has type {t}, expected {ty}"))
                    }
                }
            },
            Expr::Witness(n) => {
                if !self.in_main {
                    return Err(format!("witness {n} outside main"));
                }
                if self.info.witnesses.contains_key(n) {
                    return Err(format!("witness {n} used twice"));
                }
                self.info.witnesses.insert(n.clone(), ty.clone());
                Ok(())
            }
            Expr::Param(n) => match self.info.params.get(n) {
                Some(t) if t == ty => Ok(()),
                Some(t) => Err(format!("parameter {n} used at {t} and at {ty}")),
                None => {
                    self.info.params.insert(n.clone(), ty.clone());
                    Ok(())
                }
            },
            Expr::Hole(_) => Err("hole".to_string()),
            Expr::Tuple(es) => match ty {
                Ty::Tuple(ts) if ts.len() == es.len() => {
                    for (x, t) in es.iter().zip(ts.clone()) {
                        self.check(x, &t)?;
                    }
                    Ok(())
                }
                _ => Err(format!("tuple of {} components where {ty} is expected", es.len())),
            },
            Expr::Array(es) => match ty {
                Ty::Array(t, n) if *n == es.len() => {
                    let t = (**t).clone();
                    for x in es {
                        self.check(x, &t)?;
                    }
                    Ok(())
                }
                _ => Err(format!("array of {} elements where {ty} is expected", es.len())),
            },
            Expr::List(es) => match ty {
                Ty::List(t, n) if es.len() < *n => {
                    let t = (**t).clone();
                    for x in es {
                        self.check(x, &t)?;
                    }
                    Ok(())
                }
                _ => Err(format!("list of {} elements where {ty} is expected", es.len())),
            },
            Expr::Left(x) => match ty {
                Ty::Either(a, _) => self.check(x, &a.clone()),
                _ => Err(format!("Left where {ty} is expected")),
            },
            Expr::Right(x) => match ty {
                Ty::Either(_, b) => self.check(x, &b.clone()),
                _ => Err(format!("Right where {ty} is expected")),
            },
            Expr::Some(x) => match ty {
                Ty::Option(a) => self.check(x, &a.clone()),
                _ => Err(format!("Some where {ty} is expected")),
            },
            Expr::None => match ty {
                Ty::Option(_) => Ok(()),
                _ => Err(format!("None where {ty} is expected")),
            },
            Expr::Paren(x) => self.check(x, ty),
            Expr::Block(stmts, last) => {
                self.vars.push(vec![]);
                let r = self.check_block(stmts, last.as_deref(), ty);
                self.vars.pop();
                r
            }
            Expr::Match { kind, scrut, left, right, .. } => {
                let lb = left.binder.as_ref().map(|(n, t)| self.resolve(t).map(|t| (n.clone(), t))).transpose()?;
                let rb = right.binder.as_ref().map(|(n, t)| self.resolve(t).map(|t| (n.clone(), t))).transpose()?;
                let sty = match (kind, &lb, &rb) {
                    (MatchKind::Bool, None, None) => Ty::Bool,
                    (MatchKind::Option, None, Some((_, t))) => Ty::option(t.clone()),
                    (MatchKind::Either, Some((_, a)), Some((_, b))) => Ty::either(a.clone(), b.clone()),
                    _ => return Err("match arms are not a compatible pair".to_string()),
                };
                self.check(scrut, &sty)?;
                for (arm, b) in [(left, lb), (right, rb)] {
                    self.vars.push(b.into_iter().collect());
                    let r = self.check(&arm.body, ty);
                    self.vars.pop();
                    r?;
                }
                Ok(())
            }
            Expr::Call(name, args) => self.check_call(name, args, ty),
        }
    }

    fn check_block(&mut self, stmts: &[Stmt], last: Option<&Expr>, ty: &Ty) -> Result<(), Ill> {
        for s in stmts {
            match s {
                Stmt::Let(p, t, e) => {
                    let t = self.resolve(t)?;
                    self.check(e, &t)?;
                    let mut names = vec![];
                    self.bind_pattern(p, &t, &mut names)?;
                    self.vars.last_mut().unwrap().extend(names);
                }
                Stmt::Expr(e) => self.check(e, &Ty::unit())?,
            }
        }
        match last {
            Some(e) => self.check(e, ty),
            None => {
                if *ty == Ty::unit() {
                    Ok(())
                } else {
                    Err(format!("block without final expression where {ty} is expected"))
                }
            }
        }
    }

    fn check_args(&mut self, args: &[Expr], tys: &[Ty], what: &str) -> Result<(), Ill> {
        if args.len() != tys.len() {
            return Err(format!("{what} takes {} arguments, {} given", tys.len(), args.len()));
        }
        for (a, t) in args.iter().zip(tys) {
            self.check(a, t)?;
        }
        Ok(())
    }

    fn check_call(&mut self, name: &CallName, args: &[Expr], ty: &Ty) -> Result<(), Ill> {
        match name {
            CallName::Jet(j) => {
                if jets::RESERVED.contains(&j.as_str()) {
                    return Err(format!("jet {j} is reserved"));
                }
                let sig = jets::sig(j).ok_or_else(|| format!("jet {j} does not exist"))?;
                let ptys: Vec<Ty> = sig.params.iter().map(Ty::resolve).collect();
                if args.len() != ptys.len() {
                    return Err(format!("jet {j} takes {} arguments", ptys.len()));
                }
                if sig.ret.resolve() != *ty {
                    return Err(format!("jet {j} returns {}, expected {ty}", sig.ret));
                }
                self.check_args(args, &ptys, j)
            }
            CallName::UnwrapLeft(r) => {
                let r = self.resolve(r)?;
                self.check_args(args, &[Ty::either(ty.clone(), r)], "unwrap_left")
            }
            CallName::UnwrapRight(l) => {
                let l = self.resolve(l)?;
                self.check_args(args, &[Ty::either(l, ty.clone())], "unwrap_right")
            }
            CallName::Unwrap => self.check_args(args, &[Ty::option(ty.clone())], "unwrap"),
            CallName::IsNone(t) => {
                let t = self.resolve(t)?;
                if args.len() != 1 {
                    return Err("is_none takes one argument".to_string());
                }
                if *ty != Ty::Bool {
                    return Err(format!("is_none returns bool, expected {ty}"));
                }
                self.check_args(args, &[Ty::option(t)], "is_none")
            }
            CallName::Assert => {
                if args.len() != 1 {
                    return Err("assert! takes one argument".to_string());
                }
                if *ty != Ty::unit() {
                    return Err(format!("assert! returns (), expected {ty}"));
                }
                self.check_args(args, &[Ty::Bool], "assert!")
            }
            CallName::Panic => self.check_args(args, &[], "panic!"),
            CallName::Dbg => self.check_args(args, &[ty.clone()], "dbg!"),
            CallName::Cast(src) => {
                let src = self.resolve(src)?;
                if layout::shape(&src) != layout::shape(ty) {
                    return Err(format!("cannot cast {src} to {ty}"));
                }
                self.check_args(args, &[src], "cast")
            }
            CallName::Fn(f) => {
                let sig = self.fns.get(f).cloned().ok_or_else(|| format!("function {f} is not defined (yet)"))?;
                let ptys: Vec<Ty> = sig.params.iter().map(|p| p.1.clone()).collect();
                if args.len() != ptys.len() {
                    return Err(format!("{f} takes {} arguments", ptys.len()));
                }
                if sig.ret != *ty {
                    return Err(format!("{f} returns {}, expected {ty}", sig.ret));
                }
                self.check_args(args, &ptys, f)
            }
            CallName::Fold(f, bound) => {
                if *bound < 2 || !bound.is_power_of_two() {
                    return Err(format!("fold bound {bound}"));
                }
                let sig = self.fns.get(f).cloned().ok_or_else(|| format!("function {f} is not defined (yet)"))?;
                if sig.params.len() != 2 || sig.params[1].1 != sig.ret {
                    return Err(format!("{f} is not a fold function"));
                }
                let tys = [Ty::list(sig.params[0].1.clone(), *bound), sig.params[1].1.clone()];
                if args.len() != 2 {
                    return Err("fold takes two arguments".to_string());
                }
                if sig.ret != *ty {
                    return Err(format!("fold returns {}, expected {ty}", sig.ret));
                }
                self.check_args(args, &tys, "fold")
            }
            CallName::ForWhile(f) => {
                let sig = self.fns.get(f).cloned().ok_or_else(|| format!("function {f} is not defined (yet)"))?;
                if sig.params.len() != 3 {
                    return Err(format!("{f} is not a loop function (arity)"));
                }
                match &sig.ret {
                    Ty::Either(_, a) if **a == sig.params[0].1 => {}
                    _ => return Err(format!("{f} is not a loop function (result)")),
                }
                match &sig.params[2].1 {
                    Ty::UInt(n) if *n <= 16 => {}
                    _ => return Err(format!("{f} is not a loop function (counter)")),
                }
                let tys = [sig.params[0].1.clone(), sig.params[1].1.clone()];
                if args.len() != 2 {
                    return Err("for_while takes two arguments".to_string());
                }
                if sig.ret != *ty {
                    return Err(format!("for_while returns {}, expected {ty}", sig.ret));
                }
                self.check_args(args, &tys, "for_while")
            }
        }
    }
}

/// Classification of a raw literal text at a type, by the rules of C11.
pub fn check_raw_literal(s: &str, ty: &Ty) -> Result<(), Ill> {
    let lower = s;
    if let Some(d) = lower.strip_prefix("0b") {
        let digits: String = d.chars().filter(|c| *c != '_').collect();
        if digits.is_empty() || !digits.chars().all(|c| c == '0' || c == '1') || !d.chars().all(|c| c == '_' || c == '0' || c == '1') {
            return Err("malformed binary literal".to_string());
        }
        return match ty {
            Ty::UInt(n) if digits.len() == *n as usize => Ok(()),
            _ => Err(format!("binary literal of {} digits at {ty}", digits.len())),
        };
    }
    if let Some(d) = lower.strip_prefix("0x") {
        let digits: String = d.chars().filter(|c| *c != '_').collect();
        if digits.is_empty() || !d.chars().all(|c| c == '_' || c.is_ascii_hexdigit()) {
            return Err("malformed hex literal".to_string());
        }
        return match ty {
            Ty::UInt(n) if *n >= 8 && digits.len() == (*n as usize) / 4 => Ok(()),
            Ty::Array(el, n) if **el == Ty::UInt(8) && digits.len() == 2 * n => Ok(()),
            _ => Err(format!("hex literal of {} digits at {ty}", digits.len())),
        };
    }
    let digits: String = s.chars().filter(|c| *c != '_').collect();
    if digits.is_empty() || !s.chars().all(|c| c == '_' || c.is_ascii_digit()) {
        return Err("malformed decimal literal".to_string());
    }
    match ty {
        Ty::UInt(n) => {
            if decimal_fits(&digits, *n) {
                Ok(())
            } else {
                Err(format!("decimal literal does not fit u{n}"))
            }
        }
        _ => Err(format!("decimal literal at {ty}")),
    }
}

/// Does the decimal digit string denote a value < 2^bits? (schoolbook on u32 limbs)
pub fn decimal_fits(digits: &str, bits: u16) -> bool {
    decimal_value(digits).map_or(false, |v| v <= U256::max_of(bits))
}

/// Mathematical value of a decimal digit string if it is below 2^256.
pub fn decimal_value(digits: &str) -> Option<U256> {
    let mut limbs = [0u32; 8]; // little endian
    for c in digits.chars() {
        let d = c.to_digit(10)? as u64;
        let mut carry = d;
        for l in limbs.iter_mut() {
            let cur = (*l as u64) * 10 + carry;
            *l = cur as u32;
            carry = cur >> 32;
        }
        if carry != 0 {
            return None;
        }
    }
    let mut b = [0u8; 32];
    for (i, l) in limbs.iter().enumerate() {
        let be = l.to_be_bytes();
        let off = 32 - 4 * (i + 1);
        b[off..off + 4].copy_from_slice(&be);
    }
    Some(U256::from_be_bytes(b))
}

pub fn check_program(p: &Program) -> Result<Info, Ill> {
    let mut tc = Tc {
        aliases: HashMap::new(),
        fns: HashMap::new(),
        info: Info::default(),
        in_main: false,
        vars: vec![],
    };
    let mut mains = 0;
    for item in &p.items {
        match item {
            Item::Mod(_) => {}
            Item::Alias(n, t) => {
                let r = tc.resolve(t)?;
                if tc.aliases.contains_key(n) {
                    return Err(format!("UNSPECIFIED: alias {n} defined twice"));
                }
                tc.aliases.insert(n.clone(), r);
            }
            Item::Fn(f) if f.name == "main" => {
                mains += 1;
                if !f.params.is_empty() {
                    return Err("main takes parameters".to_string());
                }
                if let Some(r) = &f.ret {
                    if tc.resolve(r)? != Ty::unit() {
                        return Err("main has a result".to_string());
                    }
                }
                tc.in_main = true;
                tc.vars.push(vec![]);
                let r = tc.check(&f.body, &Ty::unit());
                tc.vars.pop();
                tc.in_main = false;
                r?;
            }
            Item::Fn(f) => {
                let mut params = vec![];
                for (n, t) in &f.params {
                    if params.iter().any(|(m, _): &(String, Ty)| m == n) {
                        return Err(format!("parameter {n} occurs twice in the signature of {}", f.name));
                    }
                    params.push((n.clone(), tc.resolve(t)?));
                }
                let ret = match &f.ret {
                    Some(t) => tc.resolve(t)?,
                    None => Ty::unit(),
                };
                tc.vars.push(params.clone());
                let r = tc.check(&f.body, &ret);
                tc.vars.pop();
                r?;
                if tc.fns.contains_key(&f.name) {
                    return Err(format!("function {} defined twice", f.name));
                }
                tc.fns.insert(f.name.clone(), FnSig { params, ret });
            }
        }
    }
    match mains {
        0 => Err("no main".to_string()),
        1 => Ok(tc.info),
        _ => Err("main defined twice".to_string()),
    }
}
