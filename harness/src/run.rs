//! Runner: drives streams of generated cases with proptest (tape streams) or by
//! enumeration, shards them over threads or child processes, merges statistics,
//! writes evidence and replay files.

use std::collections::{BTreeMap, BTreeSet, HashSet};
use std::io::Write;
use std::path::{Path, PathBuf};
use std::sync::atomic::{AtomicBool, Ordering};
use std::sync::{Arc, Mutex, OnceLock};
use std::time::Instant;

use proptest::prelude::*;
use proptest::test_runner::{Config, RngSeed, TestCaseError, TestError, TestRunner};
use serde_json::{json, Value as Json};

use crate::tape::{derive_seed, Tape};

#[derive(Clone, Copy, Debug, PartialEq, Eq)]
pub enum Tier {
    Quick,
    Thorough,
}

impl Tier {
    pub fn name(self) -> &'static str {
        match self {
            Tier::Quick => "quick",
            Tier::Thorough => "thorough",
        }
    }
    pub fn pick(self, q: u64, t: u64) -> u64 {
        match self {
            Tier::Quick => q,
            Tier::Thorough => t,
        }
    }
}

#[derive(Clone, Debug)]
pub struct Failure {
    /// Predicate-style class of the failure (used for known findings). A signature
    /// starting with `INTERNAL:` is a harness problem (exit 2), never a violation.
    pub signature: String,
    pub message: String,
    pub detail: Json,
}

impl Failure {
    pub fn new(signature: impl Into<String>, message: impl Into<String>) -> Self {
        Failure {
            signature: signature.into(),
            message: message.into(),
            detail: Json::Null,
        }
    }
    pub fn with(mut self, detail: Json) -> Self {
        self.detail = detail;
        self
    }
    pub fn internal(message: impl Into<String>) -> Self {
        Failure::new("INTERNAL:harness", message)
    }
    pub fn is_internal(&self) -> bool {
        self.signature.starts_with("INTERNAL:")
    }
}

#[derive(Clone, Debug, Default)]
pub struct Stats {
    pub evaluations: u64,
    pub cases: u64,
    pub nontrivial: HashSet<u64>,
    pub labels: BTreeMap<String, u64>,
    pub excluded: BTreeMap<String, u64>,
    pub known_hits: BTreeMap<String, (u64, String)>,
    pub first: Option<Json>,
    pub middle: Option<Json>,
    pub largest: Option<(u64, Json)>,
    pub exhaustive: Option<bool>,
}

impl Stats {
    pub fn merge(&mut self, other: Stats) {
        self.evaluations += other.evaluations;
        self.cases += other.cases;
        self.nontrivial.extend(other.nontrivial);
        for (k, v) in other.labels {
            *self.labels.entry(k).or_default() += v;
        }
        for (k, v) in other.excluded {
            *self.excluded.entry(k).or_default() += v;
        }
        for (k, (n, m)) in other.known_hits {
            let e = self.known_hits.entry(k).or_insert((0, m));
            e.0 += n;
        }
        if self.first.is_none() {
            self.first = other.first;
        }
        if other.middle.is_some() {
            self.middle = other.middle;
        }
        match (&self.largest, other.largest) {
            (Some((a, _)), Some((b, v))) if b > *a => self.largest = Some((b, v)),
            (None, Some(x)) => self.largest = Some(x),
            _ => {}
        }
        if let Some(e) = other.exhaustive {
            self.exhaustive = Some(self.exhaustive.unwrap_or(true) && e);
        }
    }

    pub fn to_json(&self) -> Json {
        json!({
            "evaluations": self.evaluations,
            "cases": self.cases,
            "nontrivial": self.nontrivial.iter().collect::<Vec<_>>(),
            "labels": self.labels,
            "excluded": self.excluded,
            "known_hits": self.known_hits.iter().map(|(k,(n,m))| (k.clone(), json!([n,m]))).collect::<BTreeMap<_,_>>(),
            "first": self.first,
            "middle": self.middle,
            "largest": self.largest.as_ref().map(|(s,v)| json!([s,v])),
            "exhaustive": self.exhaustive,
        })
    }

    pub fn from_json(j: &Json) -> Stats {
        let mut s = Stats::default();
        s.evaluations = j["evaluations"].as_u64().unwrap_or(0);
        s.cases = j["cases"].as_u64().unwrap_or(0);
        if let Some(a) = j["nontrivial"].as_array() {
            s.nontrivial = a.iter().filter_map(|x| x.as_u64()).collect();
        }
        if let Some(o) = j["labels"].as_object() {
            for (k, v) in o {
                s.labels.insert(k.clone(), v.as_u64().unwrap_or(0));
            }
        }
        if let Some(o) = j["excluded"].as_object() {
            for (k, v) in o {
                s.excluded.insert(k.clone(), v.as_u64().unwrap_or(0));
            }
        }
        if let Some(o) = j["known_hits"].as_object() {
            for (k, v) in o {
                s.known_hits.insert(
                    k.clone(),
                    (
                        v[0].as_u64().unwrap_or(0),
                        v[1].as_str().unwrap_or("").to_string(),
                    ),
                );
            }
        }
        if !j["first"].is_null() {
            s.first = Some(j["first"].clone());
        }
        if !j["middle"].is_null() {
            s.middle = Some(j["middle"].clone());
        }
        if let Some(a) = j["largest"].as_array() {
            s.largest = Some((a[0].as_u64().unwrap_or(0), a[1].clone()));
        }
        s.exhaustive = j["exhaustive"].as_bool();
        s
    }
}

/// Per-case context handed to a stream function.
pub struct Ctx {
    pub stats: Stats,
    /// false while proptest is shrinking (nothing is counted then)
    pub counting: bool,
    /// strict replay: known findings are reported, not skipped
    pub strict: bool,
    pub tier: Tier,
    want_middle: bool,
}

impl Ctx {
    pub fn new(tier: Tier) -> Self {
        Ctx {
            stats: Stats::default(),
            counting: true,
            strict: false,
            tier,
            want_middle: false,
        }
    }
    pub fn label(&mut self, l: &str) {
        if self.counting {
            *self.stats.labels.entry(l.to_string()).or_default() += 1;
        }
    }
    pub fn label_n(&mut self, l: &str, n: u64) {
        if self.counting && n > 0 {
            *self.stats.labels.entry(l.to_string()).or_default() += n;
        }
    }
    pub fn evals(&mut self, n: u64) {
        if self.counting {
            self.stats.evaluations += n;
        }
    }
    pub fn nontrivial(&mut self, digest: u64) {
        if self.counting {
            self.stats.nontrivial.insert(digest);
        }
    }
    pub fn exclude(&mut self, reason: &str) {
        if self.counting {
            *self.stats.excluded.entry(reason.to_string()).or_default() += 1;
        }
    }
    /// Offer a sample of the given size; the runner keeps the first, a middle and the largest.
    pub fn sample(&mut self, size: u64, f: impl FnOnce() -> Json) {
        if !self.counting {
            return;
        }
        let need_first = self.stats.first.is_none();
        let need_mid = self.want_middle;
        let need_large = self.stats.largest.as_ref().map_or(true, |(s, _)| size > *s);
        if !(need_first || need_mid || need_large) {
            return;
        }
        let v = f();
        if need_first {
            self.stats.first = Some(v.clone());
        }
        if need_mid {
            self.stats.middle = Some(v.clone());
            self.want_middle = false;
        }
        if need_large {
            self.stats.largest = Some((size, v));
        }
    }
}

pub type TapeFn = fn(&mut Tape, &mut Ctx) -> Result<(), Failure>;
pub type EnumFn = fn(u64, &mut Ctx) -> Result<(), Failure>;

#[derive(Clone, Copy)]
pub enum Kind {
    /// proptest-driven: `cases(tier)` tapes of length `< max_len`
    Tape {
        cases: fn(Tier) -> u64,
        max_len: usize,
        f: TapeFn,
    },
    /// enumeration of `count(tier)` indices; `complete(tier)` says whether that is the whole space
    Enum {
        count: fn(Tier) -> u64,
        complete: fn(Tier) -> bool,
        f: EnumFn,
    },
}

#[derive(Clone, Copy)]
pub struct Stream {
    pub name: &'static str,
    pub kind: Kind,
    /// run shards in child processes (abort / stack overflow becomes observable)
    pub isolate: bool,
}

#[derive(Debug, Clone)]
pub struct StreamOutcome {
    pub stats: Stats,
    pub failure: Option<(Failure, Json)>, // failure + replay locator (tape or index)
}

// ---------------------------------------------------------------- known findings

#[derive(Debug, Clone)]
pub struct Known {
    pub property: String,
    pub signature: String,
    pub what: String,
}

pub fn verif_dir() -> PathBuf {
    if let Ok(d) = std::env::var("VERIF_DIR") {
        return PathBuf::from(d);
    }
    PathBuf::from("/verif")
}

pub fn known_findings() -> &'static Vec<Known> {
    static K: OnceLock<Vec<Known>> = OnceLock::new();
    K.get_or_init(|| {
        let mut out = vec![];
        let p = verif_dir().join("known_findings.jsonl");
        if let Ok(text) = std::fs::read_to_string(&p) {
            for line in text.lines() {
                let line = line.trim();
                if line.is_empty() || line.starts_with('#') {
                    continue;
                }
                if let Ok(j) = serde_json::from_str::<Json>(line) {
                    if j["kind"].as_str() == Some("known") {
                        out.push(Known {
                            property: j["property"].as_str().unwrap_or("").to_string(),
                            signature: j["signature"].as_str().unwrap_or("").to_string(),
                            what: j["what"].as_str().unwrap_or("").to_string(),
                        });
                    }
                }
            }
        }
        out
    })
}

pub fn is_known(property: &str, signature: &str) -> Option<&'static Known> {
    known_findings()
        .iter()
        .find(|k| k.property == property && k.signature == signature)
}

// ---------------------------------------------------------------- panic capture

thread_local! {
    static LAST_PANIC: std::cell::RefCell<Option<String>> = const { std::cell::RefCell::new(None) };
}

pub fn install_panic_hook() {
    static ONCE: OnceLock<()> = OnceLock::new();
    ONCE.get_or_init(|| {
        std::panic::set_hook(Box::new(|info| {
            let loc = info
                .location()
                .map(|l| format!("{}:{}", l.file(), l.line()))
                .unwrap_or_default();
            let msg = if let Some(s) = info.payload().downcast_ref::<&str>() {
                s.to_string()
            } else if let Some(s) = info.payload().downcast_ref::<String>() {
                s.clone()
            } else {
                "<non-string panic>".to_string()
            };
            LAST_PANIC.with(|p| *p.borrow_mut() = Some(format!("{msg} @ {loc}")));
        }));
    });
}

/// Run `f`, converting a panic into `Err(message @ location)`.
pub fn catch<T>(f: impl FnOnce() -> T) -> Result<T, String> {
    install_panic_hook();
    LAST_PANIC.with(|p| *p.borrow_mut() = None);
    match std::panic::catch_unwind(std::panic::AssertUnwindSafe(f)) {
        Ok(v) => Ok(v),
        Err(_) => Err(LAST_PANIC
            .with(|p| p.borrow_mut().take())
            .unwrap_or_else(|| "<panic>".to_string())),
    }
}

/// Location part (`file:line`) of a captured panic message, with the registry prefix stripped.
pub fn panic_site(msg: &str) -> String {
    let loc = msg.rsplit(" @ ").next().unwrap_or("");
    let loc = loc.rsplit("/src/").next().unwrap_or(loc);
    loc.to_string()
}


/// A panic that escaped to the runner: if it was raised inside the code under test (its
/// location lies in the repository's sources) it is a failure of that code on input the
/// harness builds through public constructors; otherwise it is a harness problem.
pub fn panic_failure(p: &str) -> Failure {
    let repo = std::env::var("VERIF_REPO").unwrap_or_else(|_| "/repo".to_string());
    let loc = p.rsplit(" @ ").next().unwrap_or("");
    if p.starts_with("LIBRARY:") {
        // the harness' conversion layer observed a public constructor misbehaving
        let what: String = p.trim_start_matches("LIBRARY:").trim().chars().take_while(|c| *c != '(').collect();
        return Failure::new(format!("constructor:{what}"), p.to_string());
    }
    if loc.starts_with(&format!("{repo}/src/")) {
        Failure::new(format!("panic:{}", panic_site(p)), format!("the library panicked while the harness called it with well-formed arguments: {p}"))
    } else {
        Failure::new(format!("INTERNAL:harness-panic:{}", panic_site(p)), format!("harness panicked: {p}"))
    }
}

// ---------------------------------------------------------------- running streams

pub fn n_threads() -> usize {
    if let Ok(s) = std::env::var("VCHECK_THREADS") {
        if let Ok(n) = s.parse::<usize>() {
            return n.max(1);
        }
    }
    std::thread::available_parallelism()
        .map(|n| n.get())
        .unwrap_or(4)
        .min(16)
}

const STACK: usize = 8 << 20;

/// Shrinking steps allowed after a failure. Streams whose single case costs a second or more (a
/// process per case, hundreds of compilations) get a small budget: a failure there is reported with
/// a less minimal tape rather than after an hour of shrinking.
fn shrink_budget(property: &str, stream: &str) -> u32 {
    match (property, stream) {
        ("C19", "history") => 24,
        ("C01", "large") => 200,
        _ => 1500,
    }
}

/// A located case is re-run up to this many times before it counts as not reproducing
/// (the code under test may depend on hash-map iteration order).
const REPLAY_ATTEMPTS: usize = 32;

/// One shard of a stream, in the current thread.
pub fn run_shard(
    property: &str,
    stream: &Stream,
    tier: Tier,
    seed: u64,
    shard: u64,
    nshards: u64,
    trace: Option<&Path>,
) -> StreamOutcome {
    install_panic_hook();
    let mut ctx = Ctx::new(tier);
    match stream.kind {
        Kind::Tape { cases, max_len, f } => {
            let total = cases(tier);
            let mine = total / nshards + u64::from(shard < total % nshards);
            if mine == 0 {
                return StreamOutcome {
                    stats: ctx.stats,
                    failure: None,
                };
            }
            let config = Config {
                cases: mine as u32,
                failure_persistence: None,
                rng_seed: RngSeed::Fixed(derive_seed(seed, &format!("{property}/{}", stream.name), shard)),
                max_shrink_iters: shrink_budget(property, stream.name),
                max_shrink_time: 0,
                verbose: 0,
                ..Config::default()
            };
            let mut runner = TestRunner::new(config);
            let strategy = proptest::collection::vec(any::<u32>(), 0..max_len);
            let failed = AtomicBool::new(false);
            let first_failing: Mutex<Option<Vec<u32>>> = Mutex::new(None);
            let cell = Mutex::new(&mut ctx);
            let mid = mine / 2;
            let prop = property.to_string();
            let res = runner.run(&strategy, |v| {
                let mut guard = cell.lock().unwrap();
                let ctx: &mut Ctx = &mut guard;
                ctx.counting = !failed.load(Ordering::Relaxed);
                if ctx.counting {
                    if ctx.stats.cases == mid {
                        ctx.want_middle = true;
                    }
                    ctx.stats.cases += 1;
                }
                if let Some(t) = trace {
                    let _ = std::fs::write(t, serde_json::to_vec(&v).unwrap());
                }
                let mut tape = Tape::new(v);
                let r = catch(|| f(&mut tape, ctx)).unwrap_or_else(|p| {
                    Err(panic_failure(&p))
                });
                match r {
                    Ok(()) => Ok(()),
                    Err(fail) => {
                        if !fail.is_internal() {
                            if let Some(k) = is_known(&prop, &fail.signature) {
                                if ctx.counting {
                                    let e = ctx
                                        .stats
                                        .known_hits
                                        .entry(k.signature.clone())
                                        .or_insert((0, k.what.clone()));
                                    e.0 += 1;
                                    *ctx.stats
                                        .excluded
                                        .entry(format!("known-finding:{}", k.signature))
                                        .or_default() += 1;
                                }
                                return Ok(());
                            }
                        }
                        if !failed.swap(true, Ordering::Relaxed) {
                            *first_failing.lock().unwrap() = Some(tape.data().to_vec());
                        }
                        Err(TestCaseError::fail(fail.signature.clone()))
                    }
                }
            });
            drop(cell);
            let failure = match res {
                Ok(()) => None,
                Err(TestError::Fail(_, v)) => {
                    // re-run the minimal tape to obtain the full failure record; the code under test may
                    // depend on hash-map iteration order, so a failure is given several chances to recur
                    // every attempt on a fresh thread, so that per-thread state left behind by earlier
                    // cases of this shard cannot mask (or fake) the failure
                    let rerun = |tape_data: &Vec<u32>| -> Option<Failure> {
                        for _ in 0..REPLAY_ATTEMPTS {
                            let data = tape_data.clone();
                            let one = move || -> Option<Failure> {
                                let mut c2 = Ctx::new(tier);
                                c2.counting = false;
                                let mut tape = Tape::new(data);
                                match catch(|| f(&mut tape, &mut c2)) {
                                    Ok(Err(fl)) => Some(fl),
                                    Ok(Ok(())) => None,
                                    Err(p) => Some(panic_failure(&p)),
                                }
                            };
                            let r = std::thread::Builder::new().stack_size(STACK).spawn(one).ok().and_then(|h| h.join().ok()).flatten();
                            if r.is_some() {
                                return r;
                            }
                        }
                        None
                    };
                    let first = first_failing.lock().unwrap().clone();
                    match rerun(&v) {
                        Some(fl) => Some((fl, json!({"tape": v}))),
                        None => match first.as_ref().and_then(|t| rerun(t).map(|fl| (fl, t.clone()))) {
                            Some((fl, t)) => Some((fl, json!({"tape": t}))),
                            None => Some((
                                Failure::internal("a failure was observed once but neither the minimal nor the original tape reproduces it in 32 attempts (non-deterministic)"),
                                json!({"tape": v}),
                            )),
                        },
                    }
                }
                Err(TestError::Abort(r)) => Some((
                    Failure::internal(format!("proptest aborted: {r}")),
                    Json::Null,
                )),
            };
            StreamOutcome {
                stats: ctx.stats,
                failure,
            }
        }
        Kind::Enum { count, complete, f } => {
            let total = count(tier);
            let mut failure = None;
            let mut i = shard;
            let my_total = total / nshards + u64::from(shard < total % nshards);
            let mid = my_total / 2;
            while i < total {
                if ctx.stats.cases == mid {
                    ctx.want_middle = true;
                }
                ctx.stats.cases += 1;
                if let Some(t) = trace {
                    let _ = std::fs::write(t, format!("[{i}]"));
                }
                let r = catch(|| f(i, &mut ctx)).unwrap_or_else(|p| {
                    Err(panic_failure(&p))
                });
                if let Err(fail) = r {
                    let known = if fail.is_internal() {
                        None
                    } else {
                        is_known(property, &fail.signature)
                    };
                    if let Some(k) = known {
                        let e = ctx
                            .stats
                            .known_hits
                            .entry(k.signature.clone())
                            .or_insert((0, k.what.clone()));
                        e.0 += 1;
                        *ctx.stats
                            .excluded
                            .entry(format!("known-finding:{}", k.signature))
                            .or_default() += 1;
                    } else {
                        failure = Some((fail, json!({"index": i})));
                        break;
                    }
                }
                i += nshards;
            }
            ctx.stats.exhaustive = Some(complete(tier) && failure.is_none());
            StreamOutcome {
                stats: ctx.stats,
                failure,
            }
        }
    }
}

fn outcome_to_json(o: &StreamOutcome) -> Json {
    json!({
        "stats": o.stats.to_json(),
        "failure": o.failure.as_ref().map(|(f, loc)| json!({
            "signature": f.signature, "message": f.message, "detail": f.detail, "loc": loc})),
    })
}

fn outcome_from_json(j: &Json) -> StreamOutcome {
    let stats = Stats::from_json(&j["stats"]);
    let failure = if j["failure"].is_null() {
        None
    } else {
        let f = &j["failure"];
        Some((
            Failure {
                signature: f["signature"].as_str().unwrap_or("").to_string(),
                message: f["message"].as_str().unwrap_or("").to_string(),
                detail: f["detail"].clone(),
            },
            f["loc"].clone(),
        ))
    };
    StreamOutcome { stats, failure }
}

/// Entry point of a child process: run one shard and print its outcome as JSON.
pub fn child_main(property: &str, stream: &Stream, tier: Tier, seed: u64, shard: u64, nshards: u64, trace: &Path) {
    // run on a thread with the documented stack size
    let prop = property.to_string();
    let st = *stream;
    let trace = trace.to_path_buf();
    let h = std::thread::Builder::new()
        .stack_size(STACK)
        .spawn(move || run_shard(&prop, &st, tier, seed, shard, nshards, Some(&trace)))
        .unwrap();
    let out = h.join().expect("shard thread");
    let s = serde_json::to_string(&outcome_to_json(&out)).unwrap();
    let stdout = std::io::stdout();
    let mut l = stdout.lock();
    let _ = writeln!(l, "{s}");
}

/// Address-space limit of the main process (all worker threads together): an allocation blow-up
/// in the tested code aborts this process instead of exhausting the machine.
pub fn set_main_limits() {
    unsafe {
        let lim = libc::rlimit {
            rlim_cur: 40 << 30,
            rlim_max: 40 << 30,
        };
        libc::setrlimit(libc::RLIMIT_AS, &lim);
        let z = libc::rlimit {
            rlim_cur: 0,
            rlim_max: 0,
        };
        libc::setrlimit(libc::RLIMIT_CORE, &z);
    }
}

pub fn set_child_limits() {
    // 8 GiB address space: an allocation blow-up ends the child, not the machine
    unsafe {
        let lim = libc::rlimit {
            rlim_cur: 8 << 30,
            rlim_max: 8 << 30,
        };
        libc::setrlimit(libc::RLIMIT_AS, &lim);
        // no core files
        let z = libc::rlimit {
            rlim_cur: 0,
            rlim_max: 0,
        };
        libc::setrlimit(libc::RLIMIT_CORE, &z);
    }
}

/// Run a whole stream over all shards.
pub fn run_stream(property: &str, stream: &Stream, tier: Tier, seed: u64) -> StreamOutcome {
    let nshards = n_threads() as u64;
    let mut outcomes: Vec<(u64, StreamOutcome)> = vec![];
    if stream.isolate {
        let exe = std::env::current_exe().expect("current exe");
        let dir = verif_dir().join("target").join("trace");
        let _ = std::fs::create_dir_all(&dir);
        let mut children = vec![];
        for shard in 0..nshards {
            let trace = dir.join(format!("{property}-{}-{shard}.json", stream.name));
            let _ = std::fs::remove_file(&trace);
            let child = std::process::Command::new(&exe)
                .arg("__shard")
                .arg(property)
                .arg(stream.name)
                .arg(tier.name())
                .arg(seed.to_string())
                .arg(shard.to_string())
                .arg(nshards.to_string())
                .arg(&trace)
                .stdout(std::process::Stdio::piped())
                .stderr(std::process::Stdio::piped())
                .spawn()
                .expect("spawn shard");
            children.push((shard, trace, child));
        }
        for (shard, trace, child) in children {
            let out = child.wait_with_output().expect("wait shard");
            let text = String::from_utf8_lossy(&out.stdout);
            let parsed = text
                .lines()
                .rev()
                .find_map(|l| serde_json::from_str::<Json>(l).ok());
            match (out.status.success(), parsed) {
                (true, Some(j)) => outcomes.push((shard, outcome_from_json(&j))),
                _ => {
                    use std::os::unix::process::ExitStatusExt;
                    let sig = out.status.signal();
                    let stderr = String::from_utf8_lossy(&out.stderr).to_string();
                    let oom = stderr.contains("memory allocation") || stderr.contains("out of memory");
                    let last = std::fs::read_to_string(&trace).ok();
                    let loc = match (&stream.kind, last.as_deref().and_then(|s| serde_json::from_str::<Json>(s).ok())) {
                        (Kind::Tape { .. }, Some(j)) => json!({"tape": j}),
                        (Kind::Enum { .. }, Some(j)) => json!({"index": j[0]}),
                        _ => Json::Null,
                    };
                    let fail = if oom {
                        Failure::new(
                            "INTERNAL:child-out-of-memory",
                            format!("child hit the address-space limit: {}", stderr.lines().last().unwrap_or("")),
                        )
                    } else if let Some(sig) = sig {
                        let tail: String = stderr.lines().rev().take(3).collect::<Vec<_>>().join(" | ");
                        Failure::new(
                            format!("abort:signal-{sig}"),
                            format!("child process died with signal {sig} (stack overflow / abort): {tail}"),
                        )
                    } else {
                        Failure::internal(format!(
                            "child exited with {:?} without a result: {}",
                            out.status.code(),
                            stderr.lines().last().unwrap_or("")
                        ))
                    };
                    outcomes.push((
                        shard,
                        StreamOutcome {
                            stats: Stats::default(),
                            failure: Some((fail, loc)),
                        },
                    ));
                }
            }
        }
    } else {
        let results: Arc<Mutex<Vec<(u64, StreamOutcome)>>> = Arc::new(Mutex::new(vec![]));
        std::thread::scope(|s| {
            for shard in 0..nshards {
                let results = Arc::clone(&results);
                let st = *stream;
                std::thread::Builder::new()
                    .stack_size(STACK)
                    .spawn_scoped(s, move || {
                        let o = run_shard(property, &st, tier, seed, shard, nshards, None);
                        results.lock().unwrap().push((shard, o));
                    })
                    .unwrap();
            }
        });
        outcomes = Arc::try_unwrap(results).unwrap().into_inner().unwrap();
    }
    outcomes.sort_by_key(|(s, _)| *s);
    let mut stats = Stats::default();
    let mut failure = None;
    for (_, o) in outcomes {
        stats.merge(o.stats);
        if failure.is_none() {
            failure = o.failure;
        }
    }
    StreamOutcome { stats, failure }
}

/// Replay one located case (tape or index) of a stream in strict mode.
pub fn replay_case(stream: &Stream, tier: Tier, loc: &Json) -> Result<(), Failure> {
    let mut ctx = Ctx::new(tier);
    ctx.strict = true;
    ctx.counting = false;
    match stream.kind {
        Kind::Tape { f, .. } => {
            let v: Vec<u32> = loc["tape"]
                .as_array()
                .map(|a| a.iter().map(|x| x.as_u64().unwrap_or(0) as u32).collect())
                .unwrap_or_default();
            let mut last = Ok(());
            for _ in 0..REPLAY_ATTEMPTS {
                let mut tape = Tape::new(v.clone());
                last = catch(|| f(&mut tape, &mut ctx)).unwrap_or_else(|p| {
                    Err(panic_failure(&p))
                });
                if last.is_err() {
                    break;
                }
            }
            last
        }
        Kind::Enum { f, .. } => {
            let i = loc["index"].as_u64().unwrap_or(0);
            catch(|| f(i, &mut ctx)).unwrap_or_else(|p| {
                Err(panic_failure(&p))
            })
        }
    }
}

// ---------------------------------------------------------------- property-level driver

pub struct PropertyDef {
    pub id: &'static str,
    pub rule: &'static str,
    pub assumptions: &'static [&'static str],
    pub streams: fn() -> Vec<Stream>,
    /// labels that must reach the given share (per mille of cases of the named stream)
    pub health: &'static [(&'static str, &'static str, u64)],
}

pub fn find_stream(p: &PropertyDef, name: &str) -> Option<Stream> {
    (p.streams)().into_iter().find(|s| s.name == name)
}

fn write_replay(p: &PropertyDef, stream: &str, tier: Tier, seed: u64, fail: &Failure, loc: &Json) -> PathBuf {
    let dir = verif_dir().join("evidence").join("replay");
    let _ = std::fs::create_dir_all(&dir);
    let sigsafe: String = fail
        .signature
        .chars()
        .map(|c| if c.is_ascii_alphanumeric() { c } else { '_' })
        .take(60)
        .collect();
    let path = dir.join(format!("{}-{}-{}.json", p.id, stream, sigsafe));
    let j = json!({
        "property": p.id,
        "stream": stream,
        "tier": tier.name(),
        "seed": seed,
        "loc": loc,
        "signature": fail.signature,
        "message": fail.message,
        "detail": fail.detail,
    });
    let _ = std::fs::write(&path, serde_json::to_string_pretty(&j).unwrap());
    path
}

/// Run a property: regress files first, then every stream. Returns the process exit code.
pub fn run_property(p: &PropertyDef, tier: Tier, seed: u64, only: Option<&str>) -> i32 {
    let t0 = Instant::now();
    let mut total = Stats::default();
    let mut per_stream = BTreeMap::new();
    let mut violations: Vec<(String, Failure, PathBuf)> = vec![];
    let mut internal: Vec<(String, Failure)> = vec![];
    let mut known_lines: BTreeSet<String> = BTreeSet::new();

    // 1. committed regression replays
    let regress = verif_dir().join("regress").join(p.id);
    let mut regress_n = 0u64;
    if let Ok(rd) = std::fs::read_dir(&regress) {
        let mut files: Vec<PathBuf> = rd.filter_map(|e| e.ok()).map(|e| e.path()).collect();
        files.sort();
        for f in files {
            if f.extension().and_then(|e| e.to_str()) != Some("json") {
                continue;
            }
            let Ok(text) = std::fs::read_to_string(&f) else { continue };
            let Ok(j) = serde_json::from_str::<Json>(&text) else { continue };
            let Some(stream) = find_stream(p, j["stream"].as_str().unwrap_or("")) else { continue };
            if let Some(o) = only {
                if o != stream.name {
                    continue;
                }
            }
            regress_n += 1;
            if let Err(fail) = replay_case(&stream, tier, &j["loc"]) {
                if fail.is_internal() {
                    internal.push((stream.name.to_string(), fail));
                } else if let Some(k) = is_known(p.id, &fail.signature) {
                    known_lines.insert(format!("KNOWN-FINDING: property={} {} [{}]", p.id, k.what, k.signature));
                } else {
                    violations.push((stream.name.to_string(), fail, f.clone()));
                }
            }
        }
    }

    // 2. streams
    for stream in (p.streams)() {
        if let Some(o) = only {
            if o != stream.name {
                continue;
            }
        }
        let ts = Instant::now();
        let out = run_stream(p.id, &stream, tier, seed);
        let mut sj = json!({
            "cases": out.stats.cases,
            "evaluations": out.stats.evaluations,
            "distinct_nontrivial": out.stats.nontrivial.len(),
            "wall_s": ts.elapsed().as_secs_f64(),
        });
        if let Some(e) = out.stats.exhaustive {
            sj["exhaustive"] = json!(e);
        }
        per_stream.insert(stream.name.to_string(), sj);
        for (sig, (n, what)) in &out.stats.known_hits {
            known_lines.insert(format!("KNOWN-FINDING: property={} {} [{}; {} generated cases]", p.id, what, sig, n));
        }
        if let Some((fail, loc)) = &out.failure {
            if fail.is_internal() {
                internal.push((stream.name.to_string(), fail.clone()));
            } else {
                let path = write_replay(p, stream.name, tier, seed, fail, loc);
                if fail.signature.starts_with("abort:") && !child_replay_dies(&path) {
                    internal.push((
                        stream.name.to_string(),
                        Failure::new("INTERNAL:abort-not-reproducible", format!("{} (not reproduced by replaying {})", fail.message, path.display())),
                    ));
                } else {
                    violations.push((stream.name.to_string(), fail.clone(), path));
                }
            }
        }
        // generator health
        for (sname, label, permille) in p.health {
            if *sname == stream.name && out.stats.cases >= 200 {
                let n = out.stats.labels.get(*label).copied().unwrap_or(0);
                if n * 1000 < out.stats.cases * permille {
                    internal.push((
                        stream.name.to_string(),
                        Failure::new(
                            "INTERNAL:generator-health",
                            format!("label {label} reached only {n} of {} cases (< {permille} per mille)", out.stats.cases),
                        ),
                    ));
                }
            }
        }
        total.merge(out.stats);
    }

    // 3. evidence
    let mut samples = vec![];
    if let Some(s) = &total.first {
        samples.push(s.clone());
    }
    if let Some(s) = &total.middle {
        samples.push(s.clone());
    }
    if let Some((_, s)) = &total.largest {
        samples.push(s.clone());
    }
    let exhaustive = total.exhaustive.unwrap_or(false);
    let mut coverage = json!({
        "evaluations": total.evaluations,
        "cases": total.cases,
        "distinct_nontrivial": total.nontrivial.len(),
        "rule": p.rule,
        "samples": samples,
        "labels": total.labels,
        "excluded": total.excluded,
        "streams": per_stream,
        "regress_replayed": regress_n,
        "known_findings_hit": total.known_hits.iter().map(|(k,(n,_))| (k.clone(), *n)).collect::<BTreeMap<_,_>>(),
    });
    if total.exhaustive.is_some() {
        coverage["exhaustive_streams_complete"] = json!(exhaustive);
    }
    let evidence = json!({
        "property_id": p.id,
        "tier": tier.name(),
        "seed": seed,
        "level": "exploration",
        "coverage": coverage,
        "assumptions": p.assumptions,
        "wall_s": t0.elapsed().as_secs_f64(),
        "violations": violations.len(),
        "inconclusive": internal.iter().map(|(s,f)| format!("{s}: {}", f.message)).collect::<Vec<_>>(),
    });
    if only.is_none() || std::env::var("VCHECK_WRITE_EVIDENCE").is_ok() {
        let dir = verif_dir().join("evidence");
        let _ = std::fs::create_dir_all(&dir);
        let _ = std::fs::write(
            dir.join(format!("{}.json", p.id)),
            serde_json::to_string_pretty(&evidence).unwrap(),
        );
    }

    // 4. report
    for l in &known_lines {
        println!("{l}");
    }
    println!(
        "{} {}: cases={} evaluations={} distinct_nontrivial={} wall={:.1}s",
        p.id,
        tier.name(),
        total.cases,
        total.evaluations,
        total.nontrivial.len(),
        t0.elapsed().as_secs_f64()
    );
    for (s, f) in &internal {
        println!("INCONCLUSIVE property={} stream={} {}: {}", p.id, s, f.signature, f.message);
    }
    if !violations.is_empty() {
        for (s, f, path) in &violations {
            println!("  stream={} signature={} :: {}", s, f.signature, f.message.replace('\n', "\n    "));
            println!("VIOLATION property={} replay={}", p.id, path.display());
        }
        return 1;
    }
    if !internal.is_empty() {
        return 2;
    }
    0
}

/// `vcheck replay <file>`
pub fn replay_file(props: &[PropertyDef], path: &Path) -> i32 {
    let Ok(text) = std::fs::read_to_string(path) else {
        eprintln!("cannot read {}", path.display());
        return 2;
    };
    let Ok(j) = serde_json::from_str::<Json>(&text) else {
        eprintln!("not json: {}", path.display());
        return 2;
    };
    let pid = j["property"].as_str().unwrap_or("");
    let Some(p) = props.iter().find(|p| p.id == pid) else {
        eprintln!("unknown property {pid}");
        return 2;
    };
    let Some(stream) = find_stream(p, j["stream"].as_str().unwrap_or("")) else {
        eprintln!("unknown stream");
        return 2;
    };
    let tier = if j["tier"].as_str() == Some("thorough") { Tier::Thorough } else { Tier::Quick };
    match replay_case(&stream, tier, &j["loc"]) {
        Ok(()) => {
            println!("replay: property {} holds on this case", pid);
            0
        }
        Err(f) if f.is_internal() => {
            println!("INCONCLUSIVE property={} {}: {}", pid, f.signature, f.message);
            2
        }
        Err(f) => {
            println!("  signature={} :: {}", f.signature, f.message);
            if let Some(k) = is_known(pid, &f.signature) {
                println!("KNOWN-FINDING: property={} {} [{}]", pid, k.what, k.signature);
                return 0;
            }
            println!("VIOLATION property={} replay={}", pid, path.display());
            1
        }
    }
}

/// Run `vcheck __replay <file>` in a child; true if the child is killed by a signal.
pub fn child_replay_dies(path: &Path) -> bool {
    use std::os::unix::process::ExitStatusExt;
    let exe = std::env::current_exe().expect("current exe");
    match std::process::Command::new(exe).arg("__replay").arg(path).output() {
        Ok(o) => o.status.signal().is_some(),
        Err(_) => false,
    }
}

/// `vcheck replay <file>`: isolated streams are replayed in a child so that an abort is observed.
pub fn replay_entry(props: &[PropertyDef], path: &Path) -> i32 {
    use std::os::unix::process::ExitStatusExt;
    let isolate = std::fs::read_to_string(path)
        .ok()
        .and_then(|t| serde_json::from_str::<Json>(&t).ok())
        .and_then(|j| {
            let p = props.iter().find(|p| Some(p.id) == j["property"].as_str())?;
            let s = find_stream(p, j["stream"].as_str()?)?;
            Some((s.isolate, p.id.to_string()))
        });
    match isolate {
        Some((true, pid)) => {
            let exe = std::env::current_exe().expect("current exe");
            match std::process::Command::new(exe).arg("__replay").arg(path).output() {
                Ok(o) => {
                    print!("{}", String::from_utf8_lossy(&o.stdout));
                    if let Some(sig) = o.status.signal() {
                        println!("  child died with signal {sig}");
                        println!("VIOLATION property={} replay={}", pid, path.display());
                        1
                    } else {
                        o.status.code().unwrap_or(2)
                    }
                }
                Err(e) => {
                    eprintln!("cannot spawn replay child: {e}");
                    2
                }
            }
        }
        _ => replay_file(props, path),
    }
}
