//! Token-level mutator for Simfony texts (programs, modules, JSON files, value and
//! type expressions).  All choices come from the tape.

use crate::tape::Tape;

#[derive(Clone, Debug, PartialEq, Eq)]
pub enum TokKind {
    Ident,
    Number,
    Punct,
    Comment,
    Space,
    Str,
    Other,
}

#[derive(Clone, Debug)]
pub struct Tok {
    pub kind: TokKind,
    pub text: String,
}

pub fn lex(s: &str) -> Vec<Tok> {
    let cs: Vec<char> = s.chars().collect();
    let mut out = vec![];
    let mut i = 0;
    while i < cs.len() {
        let c = cs[i];
        let start = i;
        let kind;
        if c.is_whitespace() {
            while i < cs.len() && cs[i].is_whitespace() {
                i += 1;
            }
            kind = TokKind::Space;
        } else if c == '/' && i + 1 < cs.len() && cs[i + 1] == '/' {
            while i < cs.len() && cs[i] != '\n' {
                i += 1;
            }
            kind = TokKind::Comment;
        } else if c == '/' && i + 1 < cs.len() && cs[i + 1] == '*' {
            i += 2;
            while i + 1 < cs.len() && !(cs[i] == '*' && cs[i + 1] == '/') {
                i += 1;
            }
            i = (i + 2).min(cs.len());
            kind = TokKind::Comment;
        } else if c == '"' {
            i += 1;
            while i < cs.len() && cs[i] != '"' {
                if cs[i] == '\\' {
                    i += 1;
                }
                i += 1;
            }
            i = (i + 1).min(cs.len());
            kind = TokKind::Str;
        } else if c.is_ascii_digit() {
            while i < cs.len() && (cs[i].is_ascii_alphanumeric() || cs[i] == '_') {
                i += 1;
            }
            kind = TokKind::Number;
        } else if c.is_ascii_alphabetic() || c == '_' {
            while i < cs.len() && (cs[i].is_ascii_alphanumeric() || cs[i] == '_') {
                i += 1;
            }
            kind = if cs[start..i].iter().all(|c| *c == '_') { TokKind::Number } else { TokKind::Ident };
        } else if "(){}[]<>,;:=!-&|.".contains(c) {
            i += 1;
            // two-char punctuation
            if i < cs.len() {
                let two: String = [c, cs[i]].iter().collect();
                if ["=>", "->", "::"].contains(&two.as_str()) {
                    i += 1;
                }
            }
            kind = TokKind::Punct;
        } else {
            i += 1;
            kind = TokKind::Other;
        }
        out.push(Tok {
            kind,
            text: cs[start..i].iter().collect(),
        });
    }
    out
}

pub fn unlex(toks: &[Tok]) -> String {
    toks.iter().map(|t| t.text.as_str()).collect()
}

pub const KEYWORDS: &[&str] = &[
    "fn", "let", "match", "type", "mod", "const", "witness", "param", "jet", "main", "true", "false", "None", "Some",
    "Left", "Right", "list", "unwrap", "unwrap_left", "unwrap_right", "is_none", "assert", "panic", "dbg", "into",
    "fold", "for_while", "Either", "Option", "List", "bool", "u1", "u2", "u4", "u8", "u16", "u32", "u64", "u128",
    "u256", "Ctx8", "Pubkey", "Message64", "Message", "Signature", "Scalar", "Fe", "Gej", "Ge", "Point", "Height",
    "Time", "Distance", "Duration", "Lock", "Outpoint", "Confidential1", "ExplicitAsset", "Asset1", "ExplicitAmount",
    "Amount1", "ExplicitNonce", "Nonce", "TokenAmount1",
];

pub const LITERAL_EDGES: &[&str] = &[
    "_", "__", "0x_", "0b_", "0x", "0b", "0x__", "0b__", "1__0", "_1", "1_", "0x_f", "0xf_", "0b_1", "0b1_", "0",
    "1", "2", "3", "4", "7", "8", "15", "16", "17", "255", "256", "257", "65535", "65536", "4294967295", "4294967296",
    "18446744073709551615", "18446744073709551616", "340282366920938463463374607431768211455",
    "340282366920938463463374607431768211456",
    "115792089237316195423570985008687907853269984665640564039457584007913129639935",
    "115792089237316195423570985008687907853269984665640564039457584007913129639936",
    "0b0", "0b1", "0b00", "0b0000", "0b00000000", "0b0000000", "0b000000000", "0x0", "0x00", "0x000", "0x0000",
    "0xff", "0xFF", "0xfF", "0xabcdef01", "0b2", "0xg", "00000000000000000000000000000000000000000000000000000000000000000000000000000000000000000000000000001",
    "9999999999999999999999999999999999999999999999999999999999999999999999999999999999999999999999999999",
    "0x0000000000000000000000000000000000000000000000000000000000000000",
    "0xffffffffffffffffffffffffffffffffffffffffffffffffffffffffffffffffff",
];

pub const PUNCT: &[&str] = &[
    "(", ")", "{", "}", "[", "]", "<", ">", ",", ";", ":", "::", "=", "=>", "->", "!", "list![", "assert!(", "::<",
    ">::into(", "witness::", "param::", "jet::", "Left(", "Right(", "Some(", "List<", "Option<", "Either<",
];

pub const SPACES: &[&str] = &[
    " ", "\n", "\r\n", "\t", "\r", "  ", "\n\n", " // c\n", "/* c */", "/* ünï©ödé ✓ */", "// 日本語\n", "/**/", "/* /* */",
    "//", "\u{a0}", "\u{2028}",
];

pub const SNIPPETS: &[&str] = &[
    "jet::eq_8", "jet::add_32", "jet::verify", "jet::check_sig_verify", "jet::nonexistent", "jet::", "witness::A",
    "param::A", "unwrap_left::<u8>", "unwrap_right::<u8>", "is_none::<u8>", "<u8>::into", "<(u4, u4)>::into",
    "fold::<f, 2>", "fold::<f, 3>", "fold::<f, 0>", "fold::<f, 1>", "for_while::<f>", "List<u8, 0>", "List<u8, 1>",
    "List<u8, 3>", "List<u8, 18446744073709551616>", "[u8; 0]", "[u8; 18446744073709551616]", "[u8; 99999999999999999999]",
    "()", "(,)", "(1,)", "[]", "list![]", "None", "Some(1)", "Left(1)", "Right(1)", "{}", "{ }", "{ 1 }", "dbg!(1)",
    "panic!()", "assert!(true)", "unwrap(None)", "match true { true => 1, false => 0, }", "let _: () = ();",
    "let (a, b): (u8, u8) = (1, 2);", "let [a, b]: [u8; 2] = [1, 2];", "fn f() {}", "fn main() {}", "type T = u8;",
    "mod witness {}", "mod param {}", "const A: u8 = 1;", "\"value\"", "\"type\"", "\"u8\"", "\"0x00\"", "{\"A\":{\"value\":\"1\",\"type\":\"u8\"}}",
];

/// Maximal bracket nesting depth of a text.
pub fn nesting_depth(s: &str) -> usize {
    let mut d: i64 = 0;
    let mut max = 0;
    for c in s.chars() {
        match c {
            '(' | '[' | '{' | '<' => {
                d += 1;
                max = max.max(d);
            }
            ')' | ']' | '}' | '>' => d = (d - 1).max(0),
            _ => {}
        }
    }
    max as usize
}

/// Does the text declare an array size / list bound / fold bound in (4096, 2^64)?
/// Those are outside the resource guard (the library allocates proportionally).
pub fn has_huge_size(s: &str) -> bool {
    let toks: Vec<Tok> = lex(s)
        .into_iter()
        .filter(|t| !matches!(t.kind, TokKind::Space | TokKind::Comment))
        .collect();
    for (i, t) in toks.iter().enumerate() {
        if t.kind != TokKind::Number || !t.text.chars().all(|c| c.is_ascii_digit()) {
            continue;
        }
        let prev = if i > 0 { toks[i - 1].text.as_str() } else { "" };
        let next = toks.get(i + 1).map(|t| t.text.as_str()).unwrap_or("");
        let in_type_pos = prev == ";" || (prev == "," && next == ">");
        if !in_type_pos {
            continue;
        }
        let digits = t.text.trim_start_matches('0');
        if digits.len() > 20 {
            continue; // overflows usize / i64: must produce Err, kept
        }
        if let Ok(v) = digits.parse::<u128>() {
            if v > 4096 && v <= u64::MAX as u128 {
                return true;
            }
        } else if !digits.is_empty() {
            continue;
        }
    }
    false
}

fn dict_token(t: &mut Tape) -> String {
    match t.weighted(&[3, 3, 3, 2, 2]) {
        0 => t.pick(KEYWORDS).to_string(),
        1 => t.pick(LITERAL_EDGES).to_string(),
        2 => t.pick(PUNCT).to_string(),
        3 => t.pick(SPACES).to_string(),
        _ => t.pick(SNIPPETS).to_string(),
    }
}

/// Mutate `seed`, possibly splicing with `other`. Returns the mutant and the names of applied operators.
pub fn mutate(t: &mut Tape, seed: &str, other: &str) -> (String, Vec<&'static str>) {
    let mut toks = lex(seed);
    let mut ops = vec![];
    let n_mut = 1 + t.weighted(&[6, 3, 2, 1]);
    for _ in 0..n_mut {
        if toks.is_empty() {
            toks.push(Tok {
                kind: TokKind::Other,
                text: dict_token(t),
            });
            ops.push("insert");
            continue;
        }
        let op = t.weighted(&[4, 3, 3, 5, 4, 3, 2, 4, 2, 2, 2, 2]);
        let i = t.index(toks.len());
        match op {
            0 => {
                toks.remove(i);
                ops.push("delete");
            }
            1 => {
                let x = toks[i].clone();
                toks.insert(i, x);
                ops.push("duplicate");
            }
            2 => {
                let j = t.index(toks.len());
                toks.swap(i, j);
                ops.push("swap");
            }
            3 => {
                toks[i] = Tok {
                    kind: TokKind::Other,
                    text: dict_token(t),
                };
                ops.push("replace");
            }
            4 => {
                let tok = Tok {
                    kind: TokKind::Other,
                    text: dict_token(t),
                };
                toks.insert(i, tok);
                ops.push("insert");
            }
            5 => {
                // splice: prefix of seed + suffix of other
                let o = lex(other);
                if !o.is_empty() {
                    let j = t.index(o.len());
                    toks.truncate(i);
                    toks.extend_from_slice(&o[j..]);
                }
                ops.push("splice");
            }
            6 => {
                // transplant a token range of other into seed
                let o = lex(other);
                if !o.is_empty() {
                    let a = t.index(o.len());
                    let len = 1 + t.index(8.min(o.len() - a));
                    let seg: Vec<Tok> = o[a..a + len].to_vec();
                    let at = i;
                    for (k, s) in seg.into_iter().enumerate() {
                        toks.insert(at + k, s);
                    }
                }
                ops.push("transplant");
            }
            7 => {
                // literal edge: replace the nearest number token
                let pos = (i..toks.len()).chain(0..i).find(|k| toks[*k].kind == TokKind::Number);
                if let Some(k) = pos {
                    toks[k].text = t.pick(LITERAL_EDGES).to_string();
                } else {
                    toks[i].text = t.pick(LITERAL_EDGES).to_string();
                }
                ops.push("literal-edge");
            }
            8 => {
                // whitespace / comment variation
                let pos = (i..toks.len()).chain(0..i).find(|k| toks[*k].kind == TokKind::Space);
                let sp = t.pick(SPACES).to_string();
                if let Some(k) = pos {
                    toks[k].text = sp;
                } else {
                    toks.insert(i, Tok { kind: TokKind::Space, text: sp });
                }
                ops.push("space");
            }
            9 => {
                // character-level edit inside a token
                let mut cs: Vec<char> = toks[i].text.chars().collect();
                if !cs.is_empty() {
                    let k = t.index(cs.len());
                    match t.index(3) {
                        0 => {
                            cs.remove(k);
                        }
                        1 => {
                            let c = *t.pick(&['_', '0', '1', 'x', 'b', 'a', 'Z', '9', ' ', '\n', '(', ')', '<', '>', ',', ';', ':', '!', '"', '\\', 'é', '\u{0}']);
                            cs.insert(k, c);
                        }
                        _ => {
                            cs[k] = *t.pick(&['_', '0', '1', 'x', 'b', 'a', 'Z', '9', ' ', '(', ')', '<', '>', ',', ';', ':', '!', '"']);
                        }
                    }
                    toks[i].text = cs.into_iter().collect();
                }
                ops.push("char");
            }
            10 => {
                // identifier edit: append suffix / replace by keyword-prefixed name
                let pos = (i..toks.len()).chain(0..i).find(|k| toks[*k].kind == TokKind::Ident);
                if let Some(k) = pos {
                    match t.index(3) {
                        0 => {
                            let suf: &str = *t.pick(&["_", "1", "x", "_x"]);
                            toks[k].text.push_str(suf)
                        }
                        1 => toks[k].text = format!("{}{}", t.pick(KEYWORDS), t.pick(&["_", "1", "x", "_x", ""])),
                        _ => {
                            let j = (0..toks.len()).filter(|j| toks[*j].kind == TokKind::Ident).collect::<Vec<_>>();
                            let src = j[t.index(j.len())];
                            toks[k].text = toks[src].text.clone();
                        }
                    }
                }
                ops.push("ident");
            }
            _ => {
                // truncate
                toks.truncate(i);
                ops.push("truncate");
            }
        }
    }
    (unlex(&toks), ops)
}

/// Raw random string (printable-heavy).
pub fn raw_string(t: &mut Tape) -> String {
    let n = t.index(200);
    let mut s = String::new();
    for _ in 0..n {
        match t.weighted(&[10, 3, 2, 1]) {
            0 => s.push((0x20u8 + t.index(95) as u8) as char),
            1 => s.push_str(&dict_token(t)),
            2 => s.push(*t.pick(&['\n', '\t', '\r', 'é', '✓', '\u{0}', '日'])),
            _ => s.push(char::from_u32(t.below(0x11_0000) as u32).unwrap_or('?')),
        }
    }
    s
}
