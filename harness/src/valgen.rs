//! Type and value generators (tape decoders) and small-domain enumerators.

use crate::model::{builtin_aliases, Ty, Val, U256, UINT_WIDTHS};
use crate::tape::Tape;

#[derive(Clone, Copy, Debug)]
pub struct TyCfg {
    pub max_depth: usize,
    pub max_tuple: usize,
    pub max_array: usize,
    pub max_list_log2: u32,
    pub allow_builtin_alias: bool,
    pub big_ints: bool,
}

impl TyCfg {
    pub const GENERAL: TyCfg = TyCfg {
        max_depth: 3,
        max_tuple: 4,
        max_array: 5,
        max_list_log2: 3,
        allow_builtin_alias: false,
        big_ints: true,
    };
    pub const SMALL: TyCfg = TyCfg {
        max_depth: 2,
        max_tuple: 3,
        max_array: 4,
        max_list_log2: 2,
        allow_builtin_alias: false,
        big_ints: true,
    };
}

pub fn gen_uint_ty(t: &mut Tape, big: bool) -> Ty {
    // 8..64 most common; alternative 0 = u8
    let ws: &[u16] = if big { &[8, 16, 32, 64, 1, 2, 4, 128, 256] } else { &[8, 16, 32, 64, 1, 2, 4] };
    let weights: Vec<u32> = ws.iter().map(|w| if (8..=64).contains(w) { 4 } else { 1 }).collect();
    Ty::UInt(ws[t.weighted(&weights)])
}

pub fn gen_ty(t: &mut Tape, cfg: &TyCfg, depth: usize) -> Ty {
    if depth >= cfg.max_depth {
        return match t.weighted(&[5, 2, 1]) {
            0 => gen_uint_ty(t, cfg.big_ints),
            1 => Ty::Bool,
            _ => Ty::unit(),
        };
    }
    match t.weighted(&[8, 3, 1, 3, 3, 4, 3, 3, if cfg.allow_builtin_alias { 2 } else { 0 }]) {
        0 => gen_uint_ty(t, cfg.big_ints),
        1 => Ty::Bool,
        2 => Ty::unit(),
        3 => Ty::option(gen_ty(t, cfg, depth + 1)),
        4 => Ty::either(gen_ty(t, cfg, depth + 1), gen_ty(t, cfg, depth + 1)),
        5 => {
            let n = t.range(1, cfg.max_tuple as u64) as usize;
            Ty::Tuple((0..n).map(|_| gen_ty(t, cfg, depth + 1)).collect())
        }
        6 => {
            let n = t.range(0, cfg.max_array as u64) as usize;
            Ty::array(gen_ty(t, cfg, depth + 1), n)
        }
        7 => {
            let k = t.range(1, cfg.max_list_log2 as u64) as u32;
            Ty::list(gen_ty(t, cfg, depth + 1), 1usize << k)
        }
        _ => {
            let all = builtin_aliases();
            let (n, ty) = all[t.index(all.len())].clone();
            Ty::Builtin(n, Box::new(ty))
        }
    }
}

pub fn gen_uint(t: &mut Tape, bits: u16) -> U256 {
    let max = U256::max_of(bits);
    let v = match t.weighted(&[2, 2, 2, 1, 1, 6]) {
        0 => U256::ZERO,
        1 => U256::from_u128(1),
        2 => max,
        3 => U256::from_u128(1).max(U256 { hi: max.hi >> 1, lo: if bits > 128 { u128::MAX } else { max.lo >> 1 } }),
        4 => {
            // single high bit
            U256::ZERO.flip_bit(bits - 1)
        }
        _ => {
            let hi = t.u128();
            let lo = t.u128();
            U256 { hi, lo }
        }
    };
    U256 {
        hi: v.hi & max.hi,
        lo: v.lo & max.lo,
    }
}

pub fn gen_val(t: &mut Tape, ty: &Ty) -> Val {
    match ty.resolved_head() {
        Ty::Bool => Val::Bool(t.bool()),
        Ty::UInt(n) => Val::UInt(*n, gen_uint(t, *n)),
        Ty::Either(a, b) => {
            if t.bool() {
                Val::Right(Box::new(gen_val(t, b)))
            } else {
                Val::Left(Box::new(gen_val(t, a)))
            }
        }
        Ty::Option(a) => {
            if t.chance(2, 3) {
                Val::Some(Box::new(gen_val(t, a)))
            } else {
                Val::None
            }
        }
        Ty::Tuple(ts) => Val::Tuple(ts.iter().map(|x| gen_val(t, x)).collect()),
        Ty::Array(a, n) => Val::Array((0..*n).map(|_| gen_val(t, a)).collect()),
        Ty::List(a, n) => {
            let len = match t.weighted(&[1, 1, 4]) {
                0 => 0,
                1 => *n - 1,
                _ => t.index(*n),
            };
            Val::List((0..len).map(|_| gen_val(t, a)).collect())
        }
        Ty::Alias(..) | Ty::Builtin(..) => unreachable!(),
    }
}

/// The zero-like default value of a type.
pub fn default_val(ty: &Ty) -> Val {
    match ty.resolved_head() {
        Ty::Bool => Val::Bool(false),
        Ty::UInt(n) => Val::UInt(*n, U256::ZERO),
        Ty::Either(a, _) => Val::Left(Box::new(default_val(a))),
        Ty::Option(_) => Val::None,
        Ty::Tuple(ts) => Val::Tuple(ts.iter().map(default_val).collect()),
        Ty::Array(a, n) => Val::Array((0..*n).map(|_| default_val(a)).collect()),
        Ty::List(..) => Val::List(vec![]),
        Ty::Alias(..) | Ty::Builtin(..) => unreachable!(),
    }
}

/// All values of a type, if there are at most `cap` of them.
pub fn all_vals(ty: &Ty, cap: usize) -> Option<Vec<Val>> {
    if ty.cardinality(cap as u128 + 1) > cap as u128 {
        return None;
    }
    let out = match ty.resolved_head() {
        Ty::Bool => vec![Val::Bool(false), Val::Bool(true)],
        Ty::UInt(n) => (0..(1u128 << n)).map(|v| Val::uint(*n, v)).collect(),
        Ty::Either(a, b) => {
            let mut v: Vec<Val> = all_vals(a, cap)?.into_iter().map(|x| Val::Left(Box::new(x))).collect();
            v.extend(all_vals(b, cap)?.into_iter().map(|x| Val::Right(Box::new(x))));
            v
        }
        Ty::Option(a) => {
            let mut v = vec![Val::None];
            v.extend(all_vals(a, cap)?.into_iter().map(|x| Val::Some(Box::new(x))));
            v
        }
        Ty::Tuple(ts) => {
            let mut acc: Vec<Vec<Val>> = vec![vec![]];
            for t in ts {
                let vs = all_vals(t, cap)?;
                let mut next = vec![];
                for p in &acc {
                    for v in &vs {
                        let mut q = p.clone();
                        q.push(v.clone());
                        next.push(q);
                    }
                }
                acc = next;
            }
            acc.into_iter().map(Val::Tuple).collect()
        }
        Ty::Array(_, 0) => vec![Val::Array(vec![])],
        Ty::Array(a, n) => {
            let vs = all_vals(a, cap)?;
            let mut acc: Vec<Vec<Val>> = vec![vec![]];
            for _ in 0..*n {
                let mut next = vec![];
                for p in &acc {
                    for v in &vs {
                        let mut q = p.clone();
                        q.push(v.clone());
                        next.push(q);
                    }
                }
                acc = next;
            }
            acc.into_iter().map(Val::Array).collect()
        }
        Ty::List(a, n) => {
            let vs = all_vals(a, cap)?;
            let mut out = vec![];
            let mut acc: Vec<Vec<Val>> = vec![vec![]];
            for len in 0..*n {
                out.extend(acc.iter().cloned().map(Val::List));
                if len + 1 < *n {
                    let mut next = vec![];
                    for p in &acc {
                        for v in &vs {
                            let mut q = p.clone();
                            q.push(v.clone());
                            next.push(q);
                        }
                    }
                    acc = next;
                }
            }
            out
        }
        Ty::Alias(..) | Ty::Builtin(..) => unreachable!(),
    };
    Some(out)
}

/// Boundary-ish neighbours of a value at a type: single bit flips, tag flips, length changes.
pub fn neighbours(v: &Val, ty: &Ty, out: &mut Vec<Val>, budget: usize) {
    if out.len() >= budget {
        return;
    }
    match (v, ty.resolved_head()) {
        (Val::Bool(b), _) => out.push(Val::Bool(!b)),
        (Val::UInt(n, x), _) => {
            for i in [0u16, n / 2, n - 1] {
                let y = x.flip_bit(i.min(n - 1));
                if !out.contains(&Val::UInt(*n, y)) {
                    out.push(Val::UInt(*n, y));
                }
            }
        }
        (Val::Left(x), Ty::Either(a, b)) => {
            out.push(Val::Right(Box::new(default_val(b))));
            let mut inner = vec![];
            neighbours(x, a, &mut inner, 3);
            out.extend(inner.into_iter().map(|y| Val::Left(Box::new(y))));
        }
        (Val::Right(x), Ty::Either(a, b)) => {
            out.push(Val::Left(Box::new(default_val(a))));
            let mut inner = vec![];
            neighbours(x, b, &mut inner, 3);
            out.extend(inner.into_iter().map(|y| Val::Right(Box::new(y))));
        }
        (Val::None, Ty::Option(a)) => out.push(Val::Some(Box::new(default_val(a)))),
        (Val::Some(x), Ty::Option(a)) => {
            out.push(Val::None);
            let mut inner = vec![];
            neighbours(x, a, &mut inner, 3);
            out.extend(inner.into_iter().map(|y| Val::Some(Box::new(y))));
        }
        (Val::Tuple(vs), Ty::Tuple(ts)) => {
            for (i, (x, t)) in vs.iter().zip(ts).enumerate() {
                let mut inner = vec![];
                neighbours(x, t, &mut inner, 2);
                for y in inner {
                    let mut w = vs.clone();
                    w[i] = y;
                    out.push(Val::Tuple(w));
                }
            }
        }
        (Val::Array(vs), Ty::Array(a, _)) => {
            for i in [0usize, vs.len().saturating_sub(1)] {
                if i < vs.len() {
                    let mut inner = vec![];
                    neighbours(&vs[i], a, &mut inner, 1);
                    for y in inner {
                        let mut w = vs.clone();
                        w[i] = y;
                        out.push(Val::Array(w));
                    }
                }
            }
        }
        (Val::List(vs), Ty::List(a, n)) => {
            if !vs.is_empty() {
                out.push(Val::List(vs[..vs.len() - 1].to_vec()));
                out.push(Val::List(vec![]));
                let mut inner = vec![];
                neighbours(&vs[0], a, &mut inner, 1);
                for y in inner {
                    let mut w = vs.clone();
                    w[0] = y;
                    out.push(Val::List(w));
                }
            }
            if vs.len() + 1 < *n {
                let mut w = vs.clone();
                w.push(default_val(a));
                out.push(Val::List(w));
            }
        }
        _ => {}
    }
    out.truncate(budget.max(1));
}

pub fn all_uint_widths() -> &'static [u16] {
    &UINT_WIDTHS
}

/// A type that `v` also inhabits although it differs nominally from `ty`: some component type
/// of which `v` carries no evidence (payload of `None`, the absent side of an `Either`, the
/// element type of an empty list or array) is replaced by another type. `None` if `v` shows all
/// of its type.
pub fn evidence_free_retype(t: &mut Tape, v: &Val, ty: &Ty) -> Option<Ty> {
    fn other(a: &Ty) -> Ty {
        match a.resolved_head() {
            Ty::UInt(8) => Ty::UInt(16),
            Ty::UInt(16) => Ty::UInt(32),
            Ty::Bool => Ty::UInt(1),
            _ => Ty::UInt(8),
        }
    }
    fn go(t: &mut Tape, v: &Val, ty: &Ty, depth: usize) -> Option<Ty> {
        if depth > 6 {
            return None;
        }
        match (v, ty.resolved_head()) {
            (Val::None, Ty::Option(a)) => Some(Ty::option(other(a))),
            (Val::Some(x), Ty::Option(a)) => go(t, x, a, depth + 1).map(Ty::option),
            (Val::Left(x), Ty::Either(a, b)) => {
                if t.bool() {
                    Some(Ty::either((**a).clone(), other(b)))
                } else {
                    go(t, x, a, depth + 1).map(|a2| Ty::either(a2, (**b).clone())).or_else(|| Some(Ty::either((**a).clone(), other(b))))
                }
            }
            (Val::Right(x), Ty::Either(a, b)) => {
                if t.bool() {
                    Some(Ty::either(other(a), (**b).clone()))
                } else {
                    go(t, x, b, depth + 1).map(|b2| Ty::either((**a).clone(), b2)).or_else(|| Some(Ty::either(other(a), (**b).clone())))
                }
            }
            (Val::List(xs), Ty::List(a, n)) => {
                if xs.is_empty() {
                    Some(Ty::list(other(a), *n))
                } else {
                    None
                }
            }
            (Val::Array(xs), Ty::Array(a, n)) => {
                if xs.is_empty() {
                    Some(Ty::array(other(a), *n))
                } else {
                    None
                }
            }
            (Val::Tuple(xs), Ty::Tuple(ts)) => {
                let start = if xs.is_empty() { 0 } else { t.index(xs.len()) };
                for k in 0..xs.len() {
                    let i = (start + k) % xs.len();
                    if let Some(n) = go(t, &xs[i], &ts[i], depth + 1) {
                        let mut ts2 = ts.clone();
                        ts2[i] = n;
                        return Some(Ty::Tuple(ts2));
                    }
                }
                None
            }
            _ => None,
        }
    }
    go(t, v, ty, 0).filter(|n| !n.same(ty))
}
