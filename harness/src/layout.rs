//! Reference layout, written from book/src/type_casting.md and the statement of C07
//! (not from types.rs / array.rs): shape of a type, bit strings of a value, decoding.

use crate::model::{Ty, Val, U256};

#[derive(Clone, Debug, PartialEq, Eq, Hash)]
pub enum Shape {
    Unit,
    Sum(Box<Shape>, Box<Shape>),
    Prod(Box<Shape>, Box<Shape>),
}

impl Shape {
    pub fn sum(a: Shape, b: Shape) -> Shape {
        Shape::Sum(Box::new(a), Box::new(b))
    }
    pub fn prod(a: Shape, b: Shape) -> Shape {
        Shape::Prod(Box::new(a), Box::new(b))
    }
    /// Bit width of the padded representation.
    pub fn width(&self) -> usize {
        match self {
            Shape::Unit => 0,
            Shape::Sum(a, b) => 1 + a.width().max(b.width()),
            Shape::Prod(a, b) => a.width() + b.width(),
        }
    }
}

/// Largest power of two strictly below n (n >= 2).
pub fn split_right(n: usize) -> usize {
    debug_assert!(n >= 2);
    let mut p = 1;
    while p * 2 < n {
        p *= 2;
    }
    p
}

/// Nested product of `n` items: the right part holds the largest power of two strictly
/// below n items (recursively); 0 items = unit, 1 item = the item itself.
pub fn nest<T: Clone>(items: &[T], unit: &dyn Fn() -> T, pair: &dyn Fn(T, T) -> T) -> T {
    match items.len() {
        0 => unit(),
        1 => items[0].clone(),
        n => {
            let r = split_right(n);
            let (left, right) = items.split_at(n - r);
            pair(nest(left, unit, pair), nest(right, unit, pair))
        }
    }
}

fn uint_shape(bits: u16) -> Shape {
    if bits == 1 {
        Shape::sum(Shape::Unit, Shape::Unit)
    } else {
        let h = uint_shape(bits / 2);
        Shape::prod(h.clone(), h)
    }
}

pub fn shape(ty: &Ty) -> Shape {
    match ty {
        Ty::Alias(_, t) | Ty::Builtin(_, t) => shape(t),
        Ty::Bool => Shape::sum(Shape::Unit, Shape::Unit),
        Ty::UInt(n) => uint_shape(*n),
        Ty::Either(a, b) => Shape::sum(shape(a), shape(b)),
        Ty::Option(a) => Shape::sum(Shape::Unit, shape(a)),
        Ty::Tuple(ts) => {
            let shapes: Vec<Shape> = ts.iter().map(shape).collect();
            nest(&shapes, &|| Shape::Unit, &Shape::prod)
        }
        Ty::Array(a, n) => {
            // all elements are equal: build by size to stay linear in log n for big arrays
            array_shape(&shape(a), *n)
        }
        Ty::List(a, n) => list_shape(&shape(a), *n),
    }
}

fn array_shape(el: &Shape, n: usize) -> Shape {
    match n {
        0 => Shape::Unit,
        1 => el.clone(),
        n => {
            let r = split_right(n);
            Shape::prod(array_shape(el, n - r), array_shape(el, r))
        }
    }
}

fn list_shape(el: &Shape, bound: usize) -> Shape {
    // List<A,2> = Option<A>; List<A,2^k> = (Option<[A;2^(k-1)]>, List<A,2^(k-1)>)
    if bound == 2 {
        Shape::sum(Shape::Unit, el.clone())
    } else {
        let half = bound / 2;
        Shape::prod(Shape::sum(Shape::Unit, array_shape(el, half)), list_shape(el, half))
    }
}

/// Structural value tree (independent of simplicity's Value).
#[derive(Clone, Debug, PartialEq, Eq)]
pub enum SVal {
    Unit,
    L(Box<SVal>),
    R(Box<SVal>),
    P(Box<SVal>, Box<SVal>),
}

fn uint_sval(bits: u16, v: U256) -> SVal {
    if bits == 1 {
        if v.bit(0) {
            SVal::R(Box::new(SVal::Unit))
        } else {
            SVal::L(Box::new(SVal::Unit))
        }
    } else {
        let h = bits / 2;
        // high half first
        let hi = shr(v, h);
        let lo = mask(v, h);
        SVal::P(Box::new(uint_sval(h, hi)), Box::new(uint_sval(h, lo)))
    }
}

fn shr(v: U256, n: u16) -> U256 {
    if n >= 128 {
        U256 {
            hi: 0,
            lo: if n == 128 { v.hi } else { v.hi >> (n - 128) },
        }
    } else {
        U256 {
            hi: v.hi >> n,
            lo: (v.lo >> n) | (v.hi << (128 - n)),
        }
    }
}

fn mask(v: U256, n: u16) -> U256 {
    let m = U256::max_of(n);
    U256 {
        hi: v.hi & m.hi,
        lo: v.lo & m.lo,
    }
}

/// Structural form of a value at a type.
pub fn sval(v: &Val, ty: &Ty) -> SVal {
    match (v, ty.resolved_head()) {
        (Val::Bool(b), Ty::Bool) => {
            if *b {
                SVal::R(Box::new(SVal::Unit))
            } else {
                SVal::L(Box::new(SVal::Unit))
            }
        }
        (Val::UInt(bits, x), Ty::UInt(_)) => uint_sval(*bits, *x),
        (Val::Left(x), Ty::Either(a, _)) => SVal::L(Box::new(sval(x, a))),
        (Val::Right(x), Ty::Either(_, b)) => SVal::R(Box::new(sval(x, b))),
        (Val::None, Ty::Option(_)) => SVal::L(Box::new(SVal::Unit)),
        (Val::Some(x), Ty::Option(a)) => SVal::R(Box::new(sval(x, a))),
        (Val::Tuple(vs), Ty::Tuple(ts)) => {
            let items: Vec<SVal> = vs.iter().zip(ts).map(|(v, t)| sval(v, t)).collect();
            nest(&items, &|| SVal::Unit, &|a, b| SVal::P(Box::new(a), Box::new(b)))
        }
        (Val::Array(vs), Ty::Array(a, _)) => {
            let items: Vec<SVal> = vs.iter().map(|v| sval(v, a)).collect();
            nest(&items, &|| SVal::Unit, &|a, b| SVal::P(Box::new(a), Box::new(b)))
        }
        (Val::List(vs), Ty::List(a, n)) => {
            let items: Vec<SVal> = vs.iter().map(|v| sval(v, a)).collect();
            list_sval(&items, *n)
        }
        (v, t) => panic!("sval: {v:?} does not inhabit {t}"),
    }
}

/// Elements fill the blocks in order: the block of 2^(k-1) elements comes first in the
/// product and holds the first elements of the list; it is present iff that bit of the
/// length is set.
fn list_sval(items: &[SVal], bound: usize) -> SVal {
    let pair = |a, b| SVal::P(Box::new(a), Box::new(b));
    if bound == 2 {
        return match items.len() {
            0 => SVal::L(Box::new(SVal::Unit)),
            _ => SVal::R(Box::new(items[0].clone())),
        };
    }
    let half = bound / 2;
    if items.len() >= half {
        let (block, rest) = items.split_at(half);
        let b = nest(block, &|| SVal::Unit, &pair);
        pair(SVal::R(Box::new(b)), list_sval(rest, half))
    } else {
        pair(SVal::L(Box::new(SVal::Unit)), list_sval(items, half))
    }
}

/// Padded bit string (Bit Machine representation).
pub fn bits_padded(s: &SVal, sh: &Shape, out: &mut Vec<bool>) {
    match (s, sh) {
        (SVal::Unit, Shape::Unit) => {}
        (SVal::L(x), Shape::Sum(a, b)) => {
            out.push(false);
            let pad = a.width().max(b.width()) - a.width();
            out.extend(std::iter::repeat(false).take(pad));
            bits_padded(x, a, out);
        }
        (SVal::R(x), Shape::Sum(a, b)) => {
            out.push(true);
            let pad = a.width().max(b.width()) - b.width();
            out.extend(std::iter::repeat(false).take(pad));
            bits_padded(x, b, out);
        }
        (SVal::P(x, y), Shape::Prod(a, b)) => {
            bits_padded(x, a, out);
            bits_padded(y, b, out);
        }
        (s, sh) => panic!("bits_padded: {s:?} vs {sh:?}"),
    }
}

/// Compact bit string (witness serialisation: no padding).
pub fn bits_compact(s: &SVal, out: &mut Vec<bool>) {
    match s {
        SVal::Unit => {}
        SVal::L(x) => {
            out.push(false);
            bits_compact(x, out);
        }
        SVal::R(x) => {
            out.push(true);
            bits_compact(x, out);
        }
        SVal::P(x, y) => {
            bits_compact(x, out);
            bits_compact(y, out);
        }
    }
}

pub fn val_bits_padded(v: &Val, ty: &Ty) -> Vec<bool> {
    let mut out = vec![];
    bits_padded(&sval(v, ty), &shape(ty), &mut out);
    out
}

pub fn val_bits_compact(v: &Val, ty: &Ty) -> Vec<bool> {
    let mut out = vec![];
    bits_compact(&sval(v, ty), &mut out);
    out
}

/// Decode a structural value back into a typed value. `None` if it does not fit.
pub fn unsval(s: &SVal, ty: &Ty) -> Option<Val> {
    match ty.resolved_head() {
        Ty::Bool => match s {
            SVal::L(x) if **x == SVal::Unit => Some(Val::Bool(false)),
            SVal::R(x) if **x == SVal::Unit => Some(Val::Bool(true)),
            _ => None,
        },
        Ty::UInt(n) => un_uint(s, *n).map(|v| Val::UInt(*n, v)),
        Ty::Either(a, b) => match s {
            SVal::L(x) => unsval(x, a).map(|v| Val::Left(Box::new(v))),
            SVal::R(x) => unsval(x, b).map(|v| Val::Right(Box::new(v))),
            _ => None,
        },
        Ty::Option(a) => match s {
            SVal::L(x) if **x == SVal::Unit => Some(Val::None),
            SVal::R(x) => unsval(x, a).map(|v| Val::Some(Box::new(v))),
            _ => None,
        },
        Ty::Tuple(ts) => {
            let mut parts = vec![];
            unnest(s, ts.len(), &mut parts)?;
            let vals: Option<Vec<Val>> = parts.iter().zip(ts).map(|(p, t)| unsval(p, t)).collect();
            vals.map(Val::Tuple)
        }
        Ty::Array(a, n) => {
            let mut parts = vec![];
            unnest(s, *n, &mut parts)?;
            let vals: Option<Vec<Val>> = parts.iter().map(|p| unsval(p, a)).collect();
            vals.map(Val::Array)
        }
        Ty::List(a, n) => {
            let mut parts = vec![];
            unlist(s, *n, &mut parts)?;
            let vals: Option<Vec<Val>> = parts.iter().map(|p| unsval(p, a)).collect();
            vals.map(Val::List)
        }
        Ty::Alias(..) | Ty::Builtin(..) => unreachable!(),
    }
}

fn un_uint(s: &SVal, bits: u16) -> Option<U256> {
    if bits == 1 {
        match s {
            SVal::L(x) if **x == SVal::Unit => Some(U256::ZERO),
            SVal::R(x) if **x == SVal::Unit => Some(U256::from_u128(1)),
            _ => None,
        }
    } else {
        match s {
            SVal::P(a, b) => {
                let h = bits / 2;
                let hi = un_uint(a, h)?;
                let lo = un_uint(b, h)?;
                Some(or(shl(hi, h), lo))
            }
            _ => None,
        }
    }
}

fn shl(v: U256, n: u16) -> U256 {
    if n >= 128 {
        U256 {
            hi: if n == 128 { v.lo } else { v.lo << (n - 128) },
            lo: 0,
        }
    } else {
        U256 {
            hi: (v.hi << n) | (v.lo >> (128 - n)),
            lo: v.lo << n,
        }
    }
}

fn or(a: U256, b: U256) -> U256 {
    U256 {
        hi: a.hi | b.hi,
        lo: a.lo | b.lo,
    }
}

fn unnest<'a>(s: &'a SVal, n: usize, out: &mut Vec<&'a SVal>) -> Option<()> {
    match n {
        0 => {
            if *s == SVal::Unit {
                Some(())
            } else {
                None
            }
        }
        1 => {
            out.push(s);
            Some(())
        }
        n => match s {
            SVal::P(a, b) => {
                let r = split_right(n);
                unnest(a, n - r, out)?;
                unnest(b, r, out)
            }
            _ => None,
        },
    }
}

fn unlist<'a>(s: &'a SVal, bound: usize, out: &mut Vec<&'a SVal>) -> Option<()> {
    if bound == 2 {
        return match s {
            SVal::L(x) if **x == SVal::Unit => Some(()),
            SVal::R(x) => {
                out.push(x);
                Some(())
            }
            _ => None,
        };
    }
    let half = bound / 2;
    match s {
        SVal::P(block, rest) => {
            match block.as_ref() {
                SVal::L(x) if **x == SVal::Unit => {}
                SVal::R(b) => unnest(b, half, out)?,
                _ => return None,
            }
            unlist(rest, half, out)
        }
        _ => None,
    }
}

/// Parse padded bits at a shape into a structural value.
pub fn sval_from_padded(bits: &[bool], pos: &mut usize, sh: &Shape) -> Option<SVal> {
    match sh {
        Shape::Unit => Some(SVal::Unit),
        Shape::Sum(a, b) => {
            let tag = *bits.get(*pos)?;
            *pos += 1;
            let w = a.width().max(b.width());
            if tag {
                *pos += w - b.width();
                Some(SVal::R(Box::new(sval_from_padded(bits, pos, b)?)))
            } else {
                *pos += w - a.width();
                Some(SVal::L(Box::new(sval_from_padded(bits, pos, a)?)))
            }
        }
        Shape::Prod(a, b) => {
            let x = sval_from_padded(bits, pos, a)?;
            let y = sval_from_padded(bits, pos, b)?;
            Some(SVal::P(Box::new(x), Box::new(y)))
        }
    }
}

/// The result of casting `v : src` to `dst` (requires equal shapes): the bits stay unchanged.
pub fn cast(v: &Val, src: &Ty, dst: &Ty) -> Option<Val> {
    if shape(src) != shape(dst) {
        return None;
    }
    unsval(&sval(v, src), dst)
}

/// Decode padded bits at a type.
pub fn unbits(ty: &Ty, bits: &[bool]) -> Option<Val> {
    let sh = shape(ty);
    let mut pos = 0;
    let s = sval_from_padded(bits, &mut pos, &sh)?;
    if pos != bits.len() {
        return None;
    }
    unsval(&s, ty)
}
