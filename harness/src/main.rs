use std::path::Path;

use vcheck::run::{self, Tier};

fn usage() -> ! {
    eprintln!("usage: vcheck run <ID> <quick|thorough> [stream] | vcheck replay <file> | vcheck list");
    std::process::exit(2);
}

fn main() {
    let args: Vec<String> = std::env::args().collect();
    let props = vcheck::checks::all();
    let seed: u64 = std::env::var("VERIF_SEED").ok().and_then(|s| s.parse().ok()).unwrap_or(1);
    match args.get(1).map(|s| s.as_str()) {
        Some("list") => {
            for p in &props {
                println!("{}: {}", p.id, (p.streams)().iter().map(|s| s.name).collect::<Vec<_>>().join(" "));
            }
        }
        Some("run") => {
            let id = args.get(2).unwrap_or_else(|| usage());
            let tier = match args.get(3).map(|s| s.as_str()) {
                Some("thorough") => Tier::Thorough,
                _ => Tier::Quick,
            };
            let Some(p) = props.iter().find(|p| p.id == id) else {
                eprintln!("unknown property {id}");
                std::process::exit(2);
            };
            let only = args.get(4).map(|s| s.as_str());
            run::set_main_limits();
            let code = run::run_property(p, tier, seed, only);
            std::process::exit(code);
        }
        Some("replay") => {
            let f = args.get(2).unwrap_or_else(|| usage());
            std::process::exit(run::replay_entry(&props, Path::new(f)));
        }
        Some("debug-run") => {
            // debug-run <program-file> [witness-module-file]
            use simfony::parse::ParseFromStr;
            let text = std::fs::read_to_string(&args[2]).expect("program file");
            let wits = match args.get(3) {
                Some(f) => simfony::WitnessValues::parse_from_str(&std::fs::read_to_string(f).expect("witness file")).expect("witness module"),
                None => simfony::WitnessValues::default(),
            };
            for debug in [false, true] {
                let out = vcheck::pipe::run_full(&text, simfony::Arguments::default(), wits.shallow_clone(), debug, &vcheck::pipe::dummy_env());
                println!("debug={debug}: {}", out.brief());
            }
        }
        Some("debug-prune") => {
            use simfony::parse::ParseFromStr;
            use simfony::simplicity::dag::{DagLike, InternalSharing};
            use simfony::simplicity::node::Inner;
            let text = std::fs::read_to_string(&args[2]).expect("program file");
            let wits = simfony::WitnessValues::parse_from_str(&std::fs::read_to_string(&args[3]).expect("witness file")).expect("witness module");
            let lt: u32 = args[4].parse().unwrap();
            let env = simfony::dummy_env::dummy_with(simfony::elements::LockTime::from_consensus(lt), simfony::elements::Sequence::ZERO, false);
            let c = simfony::CompiledProgram::new(text.as_str(), simfony::Arguments::default(), false).expect("compile");
            for pruned in [false, true] {
                let s = c.satisfy_with_env(wits.shallow_clone(), if pruned { Some(&env) } else { None });
                let s = match s { Ok(s) => s, Err(e) => { println!("pruned={pruned}: satisfy error {e}"); continue; } };
                let r = s.redeem();
                println!("pruned={pruned}: nodes");
                let dump = |node: &simfony::simplicity::RedeemNode<simfony::simplicity::jet::Elements>| {
                    for item in node.post_order_iter::<InternalSharing>() {
                        match item.node.inner() {
                            Inner::Witness(v) => println!("   witness {} : {}", v, item.node.arrow().target),
                            Inner::AssertL(_, c) => println!("   assertl hidden {} cmr {} ihr {} : {}", &c.to_string()[..8], &item.node.cmr().to_string()[..8], &item.node.ihr().to_string()[..8], item.node.arrow()),
                            Inner::AssertR(c, _) => println!("   assertr hidden {} cmr {} ihr {} : {}", &c.to_string()[..8], &item.node.cmr().to_string()[..8], &item.node.ihr().to_string()[..8], item.node.arrow()),
                            Inner::Case(..) => println!("   case cmr {} ihr {} : {}", &item.node.cmr().to_string()[..8], &item.node.ihr().to_string()[..8], item.node.arrow()),
                            _ => {}
                        }
                    }
                };
                dump(r);
                let (pb, wb) = r.encode_to_vec();
                println!("   witness bytes {:?} program bytes {}", wb, pb.len());
                let wbits: usize = r.as_ref().post_order_iter::<InternalSharing>().filter_map(|i| match i.node.inner() { Inner::Witness(v) => Some(v.iter_compact().count()), _ => None }).sum();
                let tbits: usize = r.as_ref().post_order_iter::<InternalSharing>().filter_map(|i| match i.node.inner() { Inner::Witness(_) => Some(i.node.arrow().target.bit_width()), _ => None }).sum();
                println!("   witness compact bits {wbits}, sum of witness type widths {tbits}");
                match simfony::simplicity::CommitNode::<simfony::simplicity::jet::Elements>::decode(simfony::simplicity::BitIter::from(pb.clone().into_iter())) { Ok(c) => println!("   program part decodes alone, cmr equal: {}", c.cmr() == r.cmr()), Err(e) => println!("   program part alone: {e}") }
                let d = simfony::simplicity::RedeemNode::<simfony::simplicity::jet::Elements>::decode(simfony::simplicity::BitIter::from(pb.into_iter()), simfony::simplicity::BitIter::from(wb.into_iter()));
                match d { Ok(d) => { println!("  decoded:"); dump(&d); println!("   exec decoded: {:?}", vcheck::pipe::exec(&d, &env)); } Err(e) => println!("  decode error {e}") }
                println!("   exec in-memory: {:?}", vcheck::pipe::exec(r, &env));
                if !pruned {
                    match r.prune(&env) {
                        Ok(raw) => { println!("  raw RedeemNode::prune:"); dump(&raw); println!("   exec raw: {:?}", vcheck::pipe::exec(&raw, &env)); }
                        Err(e) => println!("  raw prune error {e}"),
                    }
                }
            }
        }
        Some("__shard") => {
            // __shard <prop> <stream> <tier> <seed> <shard> <nshards> <trace>
            let p = props.iter().find(|p| p.id == args[2]).expect("property");
            let stream = run::find_stream(p, &args[3]).expect("stream");
            let tier = if args[4] == "thorough" { Tier::Thorough } else { Tier::Quick };
            run::set_child_limits();
            run::child_main(p.id, &stream, tier, args[5].parse().unwrap(), args[6].parse().unwrap(), args[7].parse().unwrap(), Path::new(&args[8]));
        }
        Some("fuzz-plan") => {
            for (s, runs, maxlen) in vcheck::fuzzglue::plan(&args[2]) {
                println!("{s} {runs} {maxlen}");
            }
        }
        Some("fuzz-seeds") => {
            let n = vcheck::fuzzglue::write_seeds(&args[2], &args[3], Path::new(&args[4])).expect("write seeds");
            println!("{n} seed files");
        }
        Some("fuzz-artifact") => {
            // fuzz-artifact <prop> <stream> <file>: convert to a replay file and replay it
            let path = vcheck::fuzzglue::artifact_to_replay(&args[2], &args[3], Path::new(&args[4])).expect("artifact");
            std::process::exit(run::replay_entry(&props, &path));
        }
        Some("fuzz-note") => {
            vcheck::fuzzglue::note_campaign(&args[2], &args[3], args[4].parse().unwrap(), args[5].parse().unwrap(), args[6].parse().unwrap(), args[7].parse().unwrap()).expect("note");
        }
        Some("__c19") => {
            vcheck::checks::c19::child_main(&args[2], args[3].parse().unwrap());
        }
        Some("__c19hist") => {
            run::set_child_limits();
            vcheck::checks::c19::hist_child_main(&args[2]);
        }
        Some("__replay") => {
            run::set_child_limits();
            std::process::exit(run::replay_file(&props, Path::new(&args[2])));
        }
        _ => usage(),
    }
}
