//! Glue between libFuzzer and the tape streams: coverage-guided search over the same decoders.

use std::sync::OnceLock;

use crate::run::{self, Ctx, Kind, TapeFn, Tier};
use crate::tape::Tape;

struct Target {
    property: String,
    f: TapeFn,
}

fn target() -> &'static Target {
    static T: OnceLock<Target> = OnceLock::new();
    T.get_or_init(|| {
        let prop = std::env::var("VCHECK_FUZZ_PROP").expect("VCHECK_FUZZ_PROP");
        let stream = std::env::var("VCHECK_FUZZ_STREAM").expect("VCHECK_FUZZ_STREAM");
        let props = crate::checks::all();
        let p = props.iter().find(|p| p.id == prop).expect("unknown property");
        let s = run::find_stream(p, &stream).expect("unknown stream");
        let f = match s.kind {
            Kind::Tape { f, .. } => f,
            Kind::Enum { .. } => panic!("enumerated streams cannot be fuzzed"),
        };
        run::install_panic_hook();
        Target { property: prop, f }
    })
}

/// Run one fuzzer input. Aborts the process on a reportable failure.
pub fn one(data: &[u8]) {
    let t = target();
    let mut tape = Tape::from_bytes(data);
    let mut ctx = Ctx::new(Tier::Thorough);
    ctx.counting = false;
    let r = run::catch(|| (t.f)(&mut tape, &mut ctx));
    let fail = match r {
        Ok(Ok(())) => return,
        Ok(Err(f)) => f,
        Err(p) => run::Failure::new("INTERNAL:harness-panic", p),
    };
    if fail.is_internal() {
        // harness problems are logged, not reported as crashes (they would stop the campaign)
        if let Ok(path) = std::env::var("VCHECK_FUZZ_LOG") {
            use std::io::Write;
            if let Ok(mut f) = std::fs::OpenOptions::new().create(true).append(true).open(path) {
                let _ = writeln!(f, "INTERNAL {}: {}", fail.signature, fail.message.lines().next().unwrap_or(""));
            }
        }
        return;
    }
    if run::is_known(&t.property, &fail.signature).is_some() {
        return;
    }
    eprintln!("vcheck-fuzz: {} :: {}", fail.signature, fail.message);
    std::process::abort();
}

/// Text carried by a tape whose words are the little-endian bytes of the text.
pub fn text_of_tape(t: &Tape) -> String {
    let mut bytes = Vec::with_capacity(t.data().len() * 4);
    for w in t.data() {
        bytes.extend_from_slice(&w.to_le_bytes());
    }
    while bytes.last() == Some(&0) {
        bytes.pop();
    }
    String::from_utf8_lossy(&bytes).to_string()
}

/// Campaign plan of a property's thorough tier: (stream, total runs, max input length in bytes).
pub fn plan(property: &str) -> Vec<(&'static str, u64, usize)> {
    match property {
        "C01" => vec![("general", 100_000, 2400)],
        "C02" => vec![("uninspected", 100_000, 1200)],
        "C03" => vec![("fuzztext", 800_000, 4096)],
        "C05" => vec![("maps", 100_000, 1600)],
        "C06" => vec![("fuzztext", 1_600_000, 4096)],
        "C07" => vec![("casts", 100_000, 1200)],
        "C11" => vec![("literals", 400_000, 800)],
        "C12" => vec![("params", 100_000, 1600)],
        "C14" => vec![("markers", 100_000, 2400)],
        "C15" => vec![("values", 400_000, 800)],
        "C16" => vec![("fuzztext", 800_000, 4096)],
        "C17" => vec![("rename", 100_000, 1600)],
        "C18" => vec![("prune", 100_000, 1600)],
        "C20" => vec![("fuzztext", 800_000, 4096)],
        _ => vec![],
    }
}

/// Write starting corpus files for a stream into `dir`.
pub fn write_seeds(property: &str, stream: &str, dir: &std::path::Path) -> std::io::Result<usize> {
    std::fs::create_dir_all(dir)?;
    let mut n = 0;
    if stream == "fuzztext" {
        let mut texts: Vec<String> = crate::seeds::examples().iter().map(|e| e.program.clone()).collect();
        texts.extend(crate::checks::genpool::programs().iter().take(40).cloned());
        if property == "C06" {
            texts.extend(crate::checks::genpool::modules().iter().take(10).cloned());
            texts.extend(crate::checks::genpool::jsons().iter().take(10).cloned());
            texts.extend(crate::seeds::VALUE_SEEDS.iter().map(|s| s.to_string()));
            texts.extend(crate::textmut::LITERAL_EDGES.iter().map(|s| s.to_string()));
        }
        for t in texts {
            if t.len() <= 4096 {
                std::fs::write(dir.join(format!("seed{n}")), t.as_bytes())?;
                n += 1;
            }
        }
    } else {
        // pseudo-random tapes of several lengths (plus the empty tape = simplest case)
        std::fs::write(dir.join("seed-empty"), b"")?;
        for i in 0..64u64 {
            let len = 16 * (1 + i % 24) as usize;
            let bytes: Vec<u8> = (0..len as u64).flat_map(|k| (crate::tape::splitmix(i * 4099 + k) as u32).to_le_bytes()).collect();
            std::fs::write(dir.join(format!("seed{i}")), bytes)?;
            n += 1;
        }
    }
    Ok(n)
}

/// Turn a libFuzzer artifact into a replay file; returns its path.
pub fn artifact_to_replay(property: &str, stream: &str, artifact: &std::path::Path) -> std::io::Result<std::path::PathBuf> {
    let bytes = std::fs::read(artifact)?;
    let tape = Tape::from_bytes(&bytes);
    let dir = run::verif_dir().join("evidence").join("replay");
    std::fs::create_dir_all(&dir)?;
    let name = artifact.file_name().and_then(|s| s.to_str()).unwrap_or("artifact");
    let path = dir.join(format!("{property}-{stream}-fuzz-{name}.json"));
    let j = serde_json::json!({"property": property, "stream": stream, "tier": "thorough", "seed": 0, "loc": {"tape": tape.data()}, "signature": "found by libFuzzer", "message": format!("artifact {}", artifact.display())});
    std::fs::write(&path, serde_json::to_string_pretty(&j).unwrap())?;
    Ok(path)
}

/// Record a finished campaign in the property's evidence file.
pub fn note_campaign(property: &str, stream: &str, runs: u64, workers: u64, corpus_files: u64, crashes: u64) -> std::io::Result<()> {
    let path = run::verif_dir().join("evidence").join(format!("{property}.json"));
    let text = std::fs::read_to_string(&path)?;
    let mut j: serde_json::Value = serde_json::from_str(&text).map_err(|e| std::io::Error::new(std::io::ErrorKind::Other, e))?;
    let entry = serde_json::json!({"engine": "libFuzzer (cargo-fuzz, target `tape`: input bytes = choice tape of the stream)", "stream": stream, "runs": runs, "workers": workers, "corpus_files_after": corpus_files, "crash_artifacts": crashes});
    let cov = &mut j["coverage"];
    if cov["fuzz_campaigns"].is_null() {
        cov["fuzz_campaigns"] = serde_json::json!([]);
    }
    cov["fuzz_campaigns"].as_array_mut().unwrap().push(entry);
    if let Some(e) = cov["evaluations"].as_u64() {
        cov["evaluations"] = serde_json::json!(e + runs);
    }
    std::fs::write(&path, serde_json::to_string_pretty(&j).unwrap())
}
