//! Type-directed program generator: builds well-typed programs by construction from a
//! choice tape, makes them self-checking with observation holes that the reference
//! interpreter fills under the intended witness assignment.

use std::collections::{BTreeMap, HashMap};

use crate::eval;
use crate::jets;
use crate::model::*;
use crate::tape::Tape;
use crate::valgen::{self, TyCfg};

#[derive(Clone, Debug)]
pub struct GenCfg {
    pub ty: TyCfg,
    pub max_helpers: usize,
    pub max_stmts: usize,
    pub max_depth: usize,
    pub budget: usize,
    pub witnesses: bool,
    pub params: bool,
    pub aliases: bool,
    pub loops: bool,
    pub jets: bool,
    pub observe: bool,
    /// shift weight to witnesses whose value is never inspected (C02)
    pub uninspected_bias: bool,
    pub max_holes: usize,
    pub panics: bool,
}

impl GenCfg {
    pub fn general() -> Self {
        GenCfg {
            ty: TyCfg::GENERAL,
            max_helpers: 3,
            max_stmts: 5,
            max_depth: 4,
            budget: 70,
            witnesses: true,
            params: false,
            aliases: true,
            loops: true,
            jets: true,
            observe: true,
            uninspected_bias: false,
            max_holes: 24,
            panics: true,
        }
    }
    pub fn large() -> Self {
        GenCfg {
            max_helpers: 4,
            max_stmts: 8,
            max_depth: 5,
            budget: 220,
            max_holes: 60,
            ..GenCfg::general()
        }
    }
    pub fn small() -> Self {
        GenCfg {
            ty: TyCfg::SMALL,
            max_helpers: 2,
            max_stmts: 4,
            max_depth: 3,
            budget: 40,
            ..GenCfg::general()
        }
    }
}

#[derive(Clone, Debug)]
pub struct Generated {
    /// program with holes filled under the intended assignment
    pub prog: Program,
    pub witnesses: Vec<(String, Val, Ty)>,
    pub params: Vec<(String, Val, Ty)>,
    pub labels: BTreeMap<String, u32>,
    /// verdict predicted by the interpreter for the intended assignment
    pub intended_verdict: Result<(), eval::Stop>,
    pub n_holes: usize,
    pub perturbed: bool,
}

impl Generated {
    pub fn wit_map(&self) -> HashMap<String, Val> {
        self.witnesses.iter().map(|(n, v, _)| (n.clone(), v.clone())).collect()
    }
    pub fn param_map(&self) -> HashMap<String, Val> {
        self.params.iter().map(|(n, v, _)| (n.clone(), v.clone())).collect()
    }
}

type Env = Vec<Vec<(String, Ty)>>;

const NAMES: &[&str] = &["a", "b", "c", "x", "y", "z"];

pub struct Gen<'t> {
    pub t: &'t mut Tape,
    pub cfg: GenCfg,
    aliases: Vec<(String, Ty)>,
    fns: Vec<FnDef>,
    fold_fns: Vec<usize>,
    loop_fns: Vec<usize>,
    pub witnesses: Vec<(String, Val, Ty)>,
    pub params: Vec<(String, Val, Ty)>,
    n_holes: usize,
    nodes: usize,
    labels: BTreeMap<String, u32>,
    in_main: bool,
    fresh: usize,
    type_pool: Vec<Ty>,
}

/// One application of the book's cast table at the head of a type: a different type with the same layout.
pub fn cast_partner(t: &mut Tape, ty: &Ty) -> Option<Ty> {
    let r = ty.resolved_head().clone();
    let mut opts: Vec<Ty> = vec![];
    match &r {
        Ty::Bool => {
            opts.push(Ty::UInt(1));
            opts.push(Ty::either(Ty::unit(), Ty::unit()));
            opts.push(Ty::option(Ty::unit()));
        }
        Ty::UInt(1) => {
            opts.push(Ty::Bool);
            opts.push(Ty::either(Ty::unit(), Ty::unit()));
        }
        Ty::UInt(n) => {
            let h = Ty::UInt(n / 2);
            opts.push(Ty::Tuple(vec![h.clone(), h.clone()]));
            opts.push(Ty::array(h, 2));
            if *n >= 4 {
                opts.push(Ty::array(Ty::UInt(n / 4), 4));
            }
            if *n == 8 {
                opts.push(Ty::array(Ty::Bool, 8));
            }
            if *n >= 16 {
                opts.push(Ty::array(Ty::UInt(8), (*n / 8) as usize));
            }
        }
        Ty::Option(a) => {
            opts.push(Ty::either(Ty::unit(), (**a).clone()));
            opts.push(Ty::list((**a).clone(), 2));
        }
        Ty::Either(a, b) => {
            if a.is_unit() {
                opts.push(Ty::option((**b).clone()));
            }
            if a.is_unit() && b.is_unit() {
                opts.push(Ty::Bool);
                opts.push(Ty::UInt(1));
            }
            // wrap the left side in a singleton tuple
            opts.push(Ty::either(Ty::Tuple(vec![(**a).clone()]), (**b).clone()));
        }
        Ty::Tuple(ts) => match ts.len() {
            0 => opts.push(Ty::array(Ty::UInt(8), 0)),
            1 => opts.push(ts[0].clone()),
            2 => {
                if ts[0].same(&ts[1]) {
                    opts.push(Ty::array(ts[0].clone(), 2));
                    if let Ty::UInt(n) = ts[0].resolved_head() {
                        if *n < 256 {
                            opts.push(Ty::UInt(n * 2));
                        }
                    }
                }
                opts.push(Ty::Tuple(vec![Ty::Tuple(vec![ts[0].clone()]), ts[1].clone()]));
            }
            n => {
                let r = crate::layout::split_right(n);
                let (l, rr) = ts.split_at(n - r);
                let lt = if l.len() == 1 { l[0].clone() } else { Ty::Tuple(l.to_vec()) };
                let rt = if rr.len() == 1 { rr[0].clone() } else { Ty::Tuple(rr.to_vec()) };
                opts.push(Ty::Tuple(vec![lt, rt]));
                if ts.iter().all(|x| x.same(&ts[0])) {
                    opts.push(Ty::array(ts[0].clone(), n));
                }
            }
        },
        Ty::Array(a, n) => match n {
            0 => opts.push(Ty::unit()),
            1 => {
                opts.push((**a).clone());
                opts.push(Ty::Tuple(vec![(**a).clone()]));
            }
            n if *n <= 6 => {
                opts.push(Ty::Tuple(vec![(**a).clone(); *n]));
                let r = crate::layout::split_right(*n);
                opts.push(Ty::Tuple(vec![Ty::array((**a).clone(), n - r), Ty::array((**a).clone(), r)]));
            }
            n => {
                let r = crate::layout::split_right(*n);
                opts.push(Ty::Tuple(vec![Ty::array((**a).clone(), n - r), Ty::array((**a).clone(), r)]));
            }
        },
        Ty::List(a, 2) => opts.push(Ty::option((**a).clone())),
        Ty::List(a, n) => opts.push(Ty::Tuple(vec![Ty::option(Ty::array((**a).clone(), n / 2)), Ty::list((**a).clone(), n / 2)])),
        Ty::Alias(..) | Ty::Builtin(..) => unreachable!(),
    }
    if opts.is_empty() {
        None
    } else {
        let i = t.index(opts.len());
        Some(opts.swap_remove(i))
    }
}

impl<'t> Gen<'t> {
    pub fn new(t: &'t mut Tape, cfg: GenCfg) -> Self {
        Gen {
            t,
            cfg,
            aliases: vec![],
            fns: vec![],
            fold_fns: vec![],
            loop_fns: vec![],
            witnesses: vec![],
            params: vec![],
            n_holes: 0,
            nodes: 0,
            labels: BTreeMap::new(),
            in_main: false,
            fresh: 0,
            type_pool: vec![],
        }
    }

    fn label(&mut self, l: &str) {
        *self.labels.entry(l.to_string()).or_default() += 1;
    }

    fn fresh(&mut self, prefix: &str) -> String {
        self.fresh += 1;
        format!("{prefix}{}", self.fresh)
    }

    fn var_name(&mut self) -> String {
        // mostly from the small pool, to force shadowing
        if self.t.chance(5, 6) {
            NAMES[self.t.index(NAMES.len())].to_string()
        } else {
            self.fresh("v")
        }
    }

    /// A type for a binding / parameter; may be an alias.
    pub fn pick_ty(&mut self, depth: usize) -> Ty {
        if !self.aliases.is_empty() && self.t.chance(1, 5) {
            let i = self.t.index(self.aliases.len());
            let (n, t) = self.aliases[i].clone();
            self.label("ty:alias");
            return Ty::Alias(n, Box::new(t.resolve()));
        }
        if self.cfg.aliases && self.t.chance(1, 25) {
            let all = builtin_aliases();
            let small: Vec<_> = all.into_iter().filter(|(n, _)| !["Ctx8", "Message64", "Signature"].contains(n)).collect();
            let (n, t) = small[self.t.index(small.len())].clone();
            self.label("ty:builtin-alias");
            return Ty::Builtin(n, Box::new(t));
        }
        let cfg = self.cfg.ty;
        valgen::gen_ty(self.t, &cfg, depth)
    }

    fn pick_let_ty(&mut self) -> Ty {
        if !self.type_pool.is_empty() && self.t.chance(1, 3) {
            let i = self.t.index(self.type_pool.len());
            return self.type_pool[i].clone();
        }
        self.pick_ty(1)
    }

    fn vars_of_type(&self, env: &Env, ty: &Ty) -> Vec<String> {
        let mut seen: Vec<&str> = vec![];
        let mut out = vec![];
        for scope in env.iter().rev() {
            for (n, t) in scope.iter().rev() {
                if seen.contains(&n.as_str()) {
                    continue;
                }
                seen.push(n);
                if t.same(ty) {
                    out.push(n.clone());
                }
            }
        }
        out
    }

    fn literal(&mut self, ty: &Ty) -> Expr {
        let v = valgen::gen_val(self.t, ty);
        self.val_expr(&v, ty)
    }

    fn val_expr(&mut self, v: &Val, ty: &Ty) -> Expr {
        match (v, ty.resolved_head()) {
            (Val::UInt(bits, x), _) => {
                let style = match self.t.weighted(&[6, 2, 2]) {
                    1 if *bits <= 64 => LitStyle::Bin,
                    2 if *bits >= 8 => LitStyle::Hex,
                    _ => LitStyle::Dec,
                };
                if style != LitStyle::Dec {
                    self.label(if style == LitStyle::Bin { "lit:bin" } else { "lit:hex" });
                }
                Expr::Int(*x, *bits, style)
            }
            (Val::Bool(b), _) => Expr::Bool(*b),
            (Val::Left(x), Ty::Either(a, _)) => Expr::Left(Box::new(self.val_expr(x, a))),
            (Val::Right(x), Ty::Either(_, b)) => Expr::Right(Box::new(self.val_expr(x, b))),
            (Val::None, _) => Expr::None,
            (Val::Some(x), Ty::Option(a)) => Expr::Some(Box::new(self.val_expr(x, a))),
            (Val::Tuple(vs), Ty::Tuple(ts)) => Expr::Tuple(vs.iter().zip(ts).map(|(v, t)| self.val_expr(v, t)).collect()),
            (Val::Array(vs), Ty::Array(a, _)) => {
                if !vs.is_empty() && matches!(a.resolved_head(), Ty::UInt(8)) && self.t.chance(1, 2) {
                    self.label("lit:hex-bytes");
                    Expr::HexBytes(vs.iter().map(|v| v.as_u128().unwrap() as u8).collect())
                } else {
                    Expr::Array(vs.iter().map(|v| self.val_expr(v, a)).collect())
                }
            }
            (Val::List(vs), Ty::List(a, _)) => Expr::List(vs.iter().map(|v| self.val_expr(v, a)).collect()),
            (v, t) => panic!("val_expr {v:?} at {t}"),
        }
    }

    fn pattern(&mut self, ty: &Ty, used: &mut Vec<String>, depth: usize) -> Pat {
        let r = ty.resolved_head().clone();
        let destructure = depth < 2 && self.t.chance(1, 2);
        match &r {
            Ty::Tuple(ts) if destructure => {
                self.label("pat:tuple");
                Pat::Tuple(ts.iter().map(|t| self.pattern(t, used, depth + 1)).collect())
            }
            Ty::Array(a, n) if destructure && *n <= 6 => {
                self.label("pat:array");
                Pat::Array((0..*n).map(|_| self.pattern(a, used, depth + 1)).collect())
            }
            _ => {
                if self.t.chance(1, 7) {
                    self.label("pat:ignore");
                    return Pat::Ignore;
                }
                let mut n = self.var_name();
                let mut tries = 0;
                while used.contains(&n) {
                    n = if tries < 3 { self.var_name() } else { self.fresh("v") };
                    tries += 1;
                }
                used.push(n.clone());
                Pat::Id(n)
            }
        }
    }

    fn bind_names(p: &Pat, ty: &Ty, scope: &mut Vec<(String, Ty)>) {
        match (p, ty.resolved_head()) {
            (Pat::Id(n), _) => scope.push((n.clone(), ty.clone())),
            (Pat::Ignore, _) => {}
            (Pat::Tuple(ps), Ty::Tuple(ts)) => ps.iter().zip(ts).for_each(|(p, t)| Self::bind_names(p, t, scope)),
            (Pat::Array(ps), Ty::Array(a, _)) => ps.iter().for_each(|p| Self::bind_names(p, a, scope)),
            _ => {}
        }
    }

    /// Generate an expression of exactly type `ty`.
    pub fn expr(&mut self, env: &mut Env, ty: &Ty, d: usize) -> Expr {
        self.nodes += 1;
        let leaf_only = d >= self.cfg.max_depth || self.nodes > self.cfg.budget;
        let r = ty.resolved_head().clone();
        let vars = self.vars_of_type(env, ty);
        let can_wit = self.in_main && self.cfg.witnesses && self.witnesses.len() < 8 && ty.size() < 40;
        let can_param = self.cfg.params && self.params.len() < 4 && ty.size() < 40;
        let wit_w = if self.cfg.uninspected_bias { 9 } else { 4 };
        if leaf_only {
            return match self.t.weighted(&[4, if vars.is_empty() { 0 } else { 5 }, if can_wit { wit_w } else { 0 }, if can_param { 2 } else { 0 }]) {
                1 => {
                    self.label("e:var");
                    Expr::Var(vars[self.t.index(vars.len())].clone())
                }
                2 => self.witness(ty),
                3 => self.param(ty),
                _ => {
                    self.label("e:literal");
                    self.literal(ty)
                }
            };
        }
        let is_compound = matches!(r, Ty::Tuple(_) | Ty::Array(..) | Ty::List(..) | Ty::Option(_) | Ty::Either(..));
        let callable: Vec<usize> = self.fns.iter().enumerate().filter(|(i, f)| f.ret_ty().same(ty) && !self.fold_fns.contains(i) && !self.loop_fns.contains(i)).map(|(i, _)| i).collect();
        let foldable: Vec<usize> = if self.cfg.loops { self.fold_fns.iter().copied().filter(|i| self.fns[*i].ret_ty().same(ty)).collect() } else { vec![] };
        let loopable: Vec<usize> = if self.cfg.loops { self.loop_fns.iter().copied().filter(|i| self.fns[*i].ret_ty().same(ty)).collect() } else { vec![] };
        let jet_names: Vec<String> = if self.cfg.jets { jets::referenced_by_result().get(&ty.resolve().to_string()).cloned().unwrap_or_default() } else { vec![] };
        let has_partner = ty.size() < 12;
        let weights = [
            3,                                                   // 0 literal
            if vars.is_empty() { 0 } else { 6 },                 // 1 var
            if can_wit { wit_w } else { 0 },                     // 2 witness
            if can_param { 2 } else { 0 },                       // 3 param
            if is_compound { 6 } else { 0 },                     // 4 constructor
            1,                                                   // 5 paren
            2,                                                   // 6 block
            3,                                                   // 7 match
            1,                                                   // 8 unwrap
            1,                                                   // 9 unwrap_left
            1,                                                   // 10 unwrap_right
            1,                                                   // 11 dbg
            if has_partner { 2 } else { 0 },                     // 12 cast
            if callable.is_empty() { 0 } else { 5 },             // 13 call
            if jet_names.is_empty() { 0 } else { 5 },            // 14 jet
            if foldable.is_empty() { 0 } else { 4 },             // 15 fold
            if loopable.is_empty() { 0 } else { 4 },             // 16 for_while
            if r == Ty::Bool { 2 } else { 0 },                   // 17 is_none
            if self.cfg.panics && self.t.chance(1, 20) { 1 } else { 0 }, // 18 panic
        ];
        match self.t.weighted(&weights) {
            0 => {
                self.label("e:literal");
                self.literal(ty)
            }
            1 => {
                self.label("e:var");
                Expr::Var(vars[self.t.index(vars.len())].clone())
            }
            2 => self.witness(ty),
            3 => self.param(ty),
            4 => self.constructor(env, ty, d),
            5 => {
                self.label("e:paren");
                Expr::Paren(Box::new(self.expr(env, ty, d + 1)))
            }
            6 => {
                self.label("e:block");
                self.block(env, ty, d + 1, 2)
            }
            7 => self.match_expr(env, ty, d),
            8 => {
                self.label("e:unwrap");
                let ot = Ty::option(ty.clone());
                let arg = if self.t.chance(5, 6) { Expr::Some(Box::new(self.expr(env, ty, d + 1))) } else { self.expr(env, &ot, d + 1) };
                Expr::Call(CallName::Unwrap, vec![arg])
            }
            9 => {
                self.label("e:unwrap_left");
                let other = self.pick_ty(2);
                let et = Ty::either(ty.clone(), other.clone());
                let arg = if self.t.chance(5, 6) { Expr::Left(Box::new(self.expr(env, ty, d + 1))) } else { self.expr(env, &et, d + 1) };
                Expr::Call(CallName::UnwrapLeft(other), vec![arg])
            }
            10 => {
                self.label("e:unwrap_right");
                let other = self.pick_ty(2);
                let et = Ty::either(other.clone(), ty.clone());
                let arg = if self.t.chance(5, 6) { Expr::Right(Box::new(self.expr(env, ty, d + 1))) } else { self.expr(env, &et, d + 1) };
                Expr::Call(CallName::UnwrapRight(other), vec![arg])
            }
            11 => {
                self.label("e:dbg");
                Expr::Call(CallName::Dbg, vec![self.expr(env, ty, d + 1)])
            }
            12 => match cast_partner(self.t, ty) {
                Some(src) => {
                    self.label("e:cast");
                    let arg = self.expr(env, &src, d + 1);
                    Expr::Call(CallName::Cast(src), vec![arg])
                }
                None => self.literal(ty),
            },
            13 => {
                self.label("e:call");
                let f = self.fns[callable[self.t.index(callable.len())]].clone();
                let args = f.params.iter().map(|(_, t)| self.expr(env, t, d + 1)).collect();
                Expr::Call(CallName::Fn(f.name.clone()), args)
            }
            14 => {
                self.label("e:jet");
                let j = jet_names[self.t.index(jet_names.len())].clone();
                let sig = jets::sig(&j).unwrap();
                let args = sig.params.iter().map(|t| self.expr(env, t, d + 1)).collect();
                Expr::Call(CallName::Jet(j), args)
            }
            15 => {
                self.label("e:fold");
                let f = self.fns[foldable[self.t.index(foldable.len())]].clone();
                let bound = 1usize << self.t.range(1, 4);
                let lt = Ty::list(f.params[0].1.clone(), bound);
                let list = self.expr(env, &lt, d + 1);
                let init = self.expr(env, &f.params[1].1, d + 1);
                Expr::Call(CallName::Fold(f.name.clone(), bound), vec![list, init])
            }
            16 => {
                self.label("e:for_while");
                let f = self.fns[loopable[self.t.index(loopable.len())]].clone();
                let acc = self.expr(env, &f.params[0].1, d + 1);
                let c = self.expr(env, &f.params[1].1, d + 1);
                Expr::Call(CallName::ForWhile(f.name.clone()), vec![acc, c])
            }
            17 => {
                self.label("e:is_none");
                let inner = self.pick_ty(2);
                let arg = self.expr(env, &Ty::option(inner.clone()), d + 1);
                Expr::Call(CallName::IsNone(inner), vec![arg])
            }
            _ => {
                self.label("e:panic");
                Expr::Call(CallName::Panic, vec![])
            }
        }
    }

    fn witness(&mut self, ty: &Ty) -> Expr {
        self.label("e:witness");
        let name = format!("W{}", self.witnesses.len());
        let v = valgen::gen_val(self.t, ty);
        self.witnesses.push((name.clone(), v, ty.clone()));
        Expr::Witness(name)
    }

    fn param(&mut self, ty: &Ty) -> Expr {
        self.label("e:param");
        let same: Vec<String> = self.params.iter().filter(|(_, _, t)| t.same(ty)).map(|(n, _, _)| n.clone()).collect();
        if !same.is_empty() && self.t.chance(1, 2) {
            self.label("e:param-reused");
            return Expr::Param(same[self.t.index(same.len())].clone());
        }
        let name = format!("P{}", self.params.len());
        let v = valgen::gen_val(self.t, ty);
        self.params.push((name.clone(), v, ty.clone()));
        Expr::Param(name)
    }

    fn constructor(&mut self, env: &mut Env, ty: &Ty, d: usize) -> Expr {
        match ty.resolved_head().clone() {
            Ty::Tuple(ts) => {
                self.label("e:tuple");
                Expr::Tuple(ts.iter().map(|t| self.expr(env, t, d + 1)).collect())
            }
            Ty::Array(a, n) => {
                self.label("e:array");
                if n > 8 {
                    return self.literal(ty);
                }
                Expr::Array((0..n).map(|_| self.expr(env, &a, d + 1)).collect())
            }
            Ty::List(a, n) => {
                self.label("e:list");
                let len = self.t.index(n.min(5));
                Expr::List((0..len).map(|_| self.expr(env, &a, d + 1)).collect())
            }
            Ty::Option(a) => {
                if self.t.chance(3, 4) {
                    self.label("e:some");
                    Expr::Some(Box::new(self.expr(env, &a, d + 1)))
                } else {
                    self.label("e:none");
                    Expr::None
                }
            }
            Ty::Either(a, b) => {
                if self.t.bool() {
                    self.label("e:right");
                    Expr::Right(Box::new(self.expr(env, &b, d + 1)))
                } else {
                    self.label("e:left");
                    Expr::Left(Box::new(self.expr(env, &a, d + 1)))
                }
            }
            _ => self.literal(ty),
        }
    }

    fn match_expr(&mut self, env: &mut Env, ty: &Ty, d: usize) -> Expr {
        let kind = match self.t.weighted(&[3, 3, 3]) {
            0 => MatchKind::Bool,
            1 => MatchKind::Option,
            _ => MatchKind::Either,
        };
        self.label(match kind {
            MatchKind::Bool => "e:match-bool",
            MatchKind::Option => "e:match-option",
            MatchKind::Either => "e:match-either",
        });
        let (sty, lb, rb) = match kind {
            MatchKind::Bool => (Ty::Bool, None, None),
            MatchKind::Option => {
                let a = self.pick_ty(2);
                (Ty::option(a.clone()), None, Some((self.var_name(), a)))
            }
            MatchKind::Either => {
                let a = self.pick_ty(2);
                let b = self.pick_ty(2);
                (Ty::either(a.clone(), b.clone()), Some((self.var_name(), a)), Some((self.var_name(), b)))
            }
        };
        let scrut = self.expr(env, &sty, d + 1);
        let mut arm = |g: &mut Self, b: Option<(String, Ty)>| {
            env.push(b.clone().into_iter().collect());
            let body = if g.t.chance(1, 3) { g.block(env, ty, d + 1, 2) } else { g.expr(env, ty, d + 1) };
            env.pop();
            Arm { binder: b, body }
        };
        let left = arm(self, lb);
        let right = arm(self, rb);
        Expr::Match {
            kind,
            scrut: Box::new(scrut),
            left: Box::new(left),
            right: Box::new(right),
            left_first: self.t.chance(2, 3),
        }
    }

    /// `{ stmts; e }` of type `ty`.
    pub fn block(&mut self, env: &mut Env, ty: &Ty, d: usize, max_stmts: usize) -> Expr {
        env.push(vec![]);
        let n = self.t.index(max_stmts + 1);
        let mut stmts = vec![];
        for _ in 0..n {
            if self.nodes > self.cfg.budget {
                break;
            }
            self.statement(env, d, &mut stmts);
        }
        let last = if ty.is_unit() && self.t.chance(2, 3) { None } else { Some(Box::new(self.expr(env, ty, d))) };
        env.pop();
        Expr::Block(stmts, last)
    }

    /// `let p: Ret = <call of a helper / fold / loop function>;`
    fn use_helper(&mut self, env: &mut Env, d: usize) -> Option<(Ty, Expr)> {
        if self.fns.is_empty() {
            return None;
        }
        let i = self.t.index(self.fns.len());
        let f = self.fns[i].clone();
        let ret = f.ret_ty();
        let e = if self.fold_fns.contains(&i) {
            self.label("e:fold");
            let bound = 1usize << self.t.range(1, 4);
            let lt = Ty::list(f.params[0].1.clone(), bound);
            let list = self.expr(env, &lt, d + 1);
            let init = self.expr(env, &f.params[1].1, d + 1);
            Expr::Call(CallName::Fold(f.name.clone(), bound), vec![list, init])
        } else if self.loop_fns.contains(&i) {
            self.label("e:for_while");
            let acc = self.expr(env, &f.params[0].1, d + 1);
            let c = self.expr(env, &f.params[1].1, d + 1);
            Expr::Call(CallName::ForWhile(f.name.clone()), vec![acc, c])
        } else {
            self.label("e:call");
            let args = f.params.iter().map(|(_, t)| self.expr(env, t, d + 1)).collect();
            Expr::Call(CallName::Fn(f.name.clone()), args)
        };
        Some((ret, e))
    }

    fn statement(&mut self, env: &mut Env, d: usize, out: &mut Vec<Stmt>) {
        let helper_w = if self.fns.is_empty() { 0 } else { 4 };
        match self.t.weighted(&[8, 3, 2, 1, 1, helper_w]) {
            5 => {
                self.label("s:let-helper");
                let (ty, e) = self.use_helper(env, d).expect("helpers exist");
                let mut used = vec![];
                let p = self.pattern(&ty, &mut used, 0);
                let mut names = vec![];
                Self::bind_names(&p, &ty, &mut names);
                out.push(Stmt::Let(p, ty, e));
                env.last_mut().unwrap().extend(names.clone());
                if self.in_main && self.cfg.observe {
                    for (n, t) in names {
                        if self.n_holes < self.cfg.max_holes && self.t.chance(3, 4) {
                            self.label("s:observe");
                            self.observe(&Expr::Var(n), &t, out, 0);
                        }
                    }
                }
            }
            0 => {
                self.label("s:let");
                let ty = self.pick_let_ty();
                let e = self.expr(env, &ty, d + 1);
                let mut used = vec![];
                let p = self.pattern(&ty, &mut used, 0);
                let mut names = vec![];
                Self::bind_names(&p, &ty, &mut names);
                out.push(Stmt::Let(p, ty, e));
                env.last_mut().unwrap().extend(names.clone());
                if self.in_main && self.cfg.observe {
                    let obs_chance = if self.cfg.uninspected_bias { (1, 3) } else { (3, 4) };
                    for (n, t) in names {
                        if self.n_holes < self.cfg.max_holes && self.t.chance(obs_chance.0, obs_chance.1) {
                            self.label("s:observe");
                            self.observe(&Expr::Var(n), &t, out, 0);
                        }
                    }
                }
            }
            1 => {
                self.label("s:assert");
                let arg = match self.t.weighted(&[4, 2, 2]) {
                    0 if self.in_main && self.cfg.observe => {
                        // observe some in-scope integer variable
                        let mut cands = vec![];
                        let mut seen = vec![];
                        for scope in env.iter().rev() {
                            for (n, t) in scope.iter().rev() {
                                if !seen.contains(n) {
                                    seen.push(n.clone());
                                    if let Ty::UInt(w) = t.resolved_head() {
                                        if [1, 8, 16, 32, 64, 256].contains(w) {
                                            cands.push((n.clone(), *w));
                                        }
                                    }
                                }
                            }
                        }
                        if cands.is_empty() || self.n_holes >= self.cfg.max_holes {
                            Expr::Bool(true)
                        } else {
                            let (n, w) = cands[self.t.index(cands.len())].clone();
                            let h = self.hole();
                            Expr::Call(CallName::Jet(format!("eq_{w}")), vec![Expr::Var(n), h])
                        }
                    }
                    1 => self.expr(env, &Ty::Bool, d + 1),
                    _ => Expr::Bool(true),
                };
                out.push(Stmt::Expr(Expr::Call(CallName::Assert, vec![arg])));
            }
            2 => {
                self.label("s:unit-expr");
                let e = self.expr(env, &Ty::unit(), d + 1);
                out.push(Stmt::Expr(e));
            }
            3 => {
                self.label("s:block");
                let e = self.block(env, &Ty::unit(), d + 1, 2);
                out.push(Stmt::Expr(e));
            }
            _ => {
                self.label("s:let-unit");
                let e = self.expr(env, &Ty::unit(), d + 1);
                out.push(Stmt::Let(Pat::Ignore, Ty::unit(), e));
            }
        }
    }

    fn hole(&mut self) -> Expr {
        let i = self.n_holes;
        self.n_holes += 1;
        Expr::Hole(i)
    }

    /// Emit statements that compare every integer / tag inside `e : ty` with a constant.
    pub fn observe(&mut self, e: &Expr, ty: &Ty, out: &mut Vec<Stmt>, depth: usize) {
        if self.n_holes >= self.cfg.max_holes || depth > 5 {
            return;
        }
        let r = ty.resolved_head().clone();
        let assert_eq = |g: &mut Self, w: u16, x: Expr, out: &mut Vec<Stmt>| {
            let h = g.hole();
            out.push(Stmt::Expr(Expr::Call(CallName::Assert, vec![Expr::Call(CallName::Jet(format!("eq_{w}")), vec![x, h])])));
        };
        match &r {
            Ty::UInt(w) if [1, 8, 16, 32, 64, 256].contains(w) => assert_eq(self, *w, e.clone(), out),
            Ty::UInt(w) => {
                // 2, 4, 128: split into halves by a cast
                let h = Ty::UInt(w / 2);
                let pt = Ty::Tuple(vec![h.clone(), h.clone()]);
                let (a, b) = (self.fresh("o"), self.fresh("o"));
                out.push(Stmt::Let(Pat::Tuple(vec![Pat::Id(a.clone()), Pat::Id(b.clone())]), pt, Expr::Call(CallName::Cast(ty.clone()), vec![e.clone()])));
                self.observe(&Expr::Var(a), &h, out, depth + 1);
                self.observe(&Expr::Var(b), &h, out, depth + 1);
            }
            Ty::Bool => {
                let x = Expr::Call(CallName::Cast(ty.clone()), vec![e.clone()]);
                assert_eq(self, 1, x, out);
            }
            Ty::Tuple(ts) => {
                if ts.is_empty() {
                    return;
                }
                let names: Vec<String> = ts.iter().map(|_| self.fresh("o")).collect();
                out.push(Stmt::Let(Pat::Tuple(names.iter().cloned().map(Pat::Id).collect()), ty.clone(), e.clone()));
                for (n, t) in names.iter().zip(ts) {
                    self.observe(&Expr::Var(n.clone()), t, out, depth + 1);
                }
            }
            Ty::Array(a, n) => {
                if *n == 0 || *n > 8 {
                    return;
                }
                let names: Vec<String> = (0..*n).map(|_| self.fresh("o")).collect();
                out.push(Stmt::Let(Pat::Array(names.iter().cloned().map(Pat::Id).collect()), ty.clone(), e.clone()));
                for n in names {
                    self.observe(&Expr::Var(n), a, out, depth + 1);
                }
            }
            Ty::Option(a) => {
                let b = self.fresh("o");
                let h1 = self.hole();
                let h2 = self.hole();
                let mut inner = vec![Stmt::Expr(Expr::Call(CallName::Assert, vec![h2]))];
                self.observe(&Expr::Var(b.clone()), a, &mut inner, depth + 1);
                out.push(Stmt::Expr(Expr::Match {
                    kind: MatchKind::Option,
                    scrut: Box::new(e.clone()),
                    left: Box::new(Arm { binder: None, body: Expr::Block(vec![Stmt::Expr(Expr::Call(CallName::Assert, vec![h1]))], None) }),
                    right: Box::new(Arm { binder: Some((b, (**a).clone())), body: Expr::Block(inner, None) }),
                    left_first: self.t.bool(),
                }));
            }
            Ty::Either(a, b) => {
                let (x, y) = (self.fresh("o"), self.fresh("o"));
                let h1 = self.hole();
                let h2 = self.hole();
                let mut li = vec![Stmt::Expr(Expr::Call(CallName::Assert, vec![h1]))];
                self.observe(&Expr::Var(x.clone()), a, &mut li, depth + 1);
                let mut ri = vec![Stmt::Expr(Expr::Call(CallName::Assert, vec![h2]))];
                self.observe(&Expr::Var(y.clone()), b, &mut ri, depth + 1);
                out.push(Stmt::Expr(Expr::Match {
                    kind: MatchKind::Either,
                    scrut: Box::new(e.clone()),
                    left: Box::new(Arm { binder: Some((x, (**a).clone())), body: Expr::Block(li, None) }),
                    right: Box::new(Arm { binder: Some((y, (**b).clone())), body: Expr::Block(ri, None) }),
                    left_first: self.t.bool(),
                }));
            }
            Ty::List(a, n) => {
                if *n > 8 {
                    return;
                }
                // cast to the structural form and observe that
                let st = if *n == 2 { Ty::option((**a).clone()) } else { Ty::Tuple(vec![Ty::option(Ty::array((**a).clone(), n / 2)), Ty::list((**a).clone(), n / 2)]) };
                let o = self.fresh("o");
                out.push(Stmt::Let(Pat::Id(o.clone()), st.clone(), Expr::Call(CallName::Cast(ty.clone()), vec![e.clone()])));
                self.observe(&Expr::Var(o), &st, out, depth + 1);
            }
            Ty::Alias(..) | Ty::Builtin(..) => unreachable!(),
        }
    }

    fn helper(&mut self, kind: u8) {
        // kind: 0 plain, 1 fold function, 2 loop function
        let idx = self.fns.len();
        let name = format!("f{idx}");
        let mut params: Vec<(String, Ty)> = vec![];
        let ret;
        match kind {
            1 => {
                let e = self.pick_ty(2);
                let a = self.pick_ty(2);
                params.push(("e".to_string(), e));
                params.push(("acc".to_string(), a.clone()));
                ret = a;
            }
            2 => {
                let a = self.pick_ty(2);
                let c = self.pick_ty(2);
                let w = [1u16, 2, 4, 8][self.t.weighted(&[3, 3, 3, 1])];
                let b = self.pick_ty(2);
                params.push(("acc".to_string(), a.clone()));
                params.push(("ctx".to_string(), c));
                params.push(("i".to_string(), Ty::UInt(w)));
                ret = Ty::either(b, a);
            }
            _ => {
                let n = self.t.index(4);
                for _ in 0..n {
                    let mut nm = self.var_name();
                    while params.iter().any(|(m, _)| *m == nm) {
                        nm = self.fresh("p");
                    }
                    let t = self.pick_ty(1);
                    params.push((nm, t));
                }
                ret = if self.t.chance(1, 5) { Ty::unit() } else { self.pick_ty(1) };
            }
        }
        let mut env: Env = vec![params.clone()];
        let saved = self.nodes;
        self.nodes = self.cfg.budget.saturating_sub(18).max(saved.min(self.cfg.budget));
        let body = self.block(&mut env, &ret, 1, 2);
        self.nodes = saved + 6;
        let written_ret = if ret.is_unit() && self.t.bool() { None } else { Some(ret.clone()) };
        self.fns.push(FnDef { name, params, ret: written_ret, body });
        self.type_pool.push(ret);
        match kind {
            1 => self.fold_fns.push(idx),
            2 => self.loop_fns.push(idx),
            _ => {}
        }
        self.label(match kind {
            1 => "fn:fold",
            2 => "fn:loop",
            _ => "fn:plain",
        });
    }

    /// Generate the whole program (holes unfilled).
    pub fn program(&mut self) -> Program {
        let mut items = vec![];
        if self.cfg.aliases {
            let n = self.t.weighted(&[3, 2, 1]);
            for i in 0..n {
                let ty = self.pick_ty(1);
                let name = format!("T{i}");
                items.push(Item::Alias(name.clone(), ty.clone()));
                self.aliases.push((name, ty));
            }
        }
        let n_helpers = self.t.index(self.cfg.max_helpers + 1);
        for _ in 0..n_helpers {
            let kind = if self.cfg.loops { self.t.weighted(&[4, 2, 2]) as u8 } else { 0 };
            self.helper(kind);
        }
        if self.cfg.jets {
            // a few jet result types as candidate binding types
            let keys: Vec<&String> = jets::referenced_by_result().keys().collect();
            for _ in 0..2 {
                let k = keys[self.t.index(keys.len())];
                if let Some(t) = crate::typarse::parse_ty(k) {
                    self.type_pool.push(t);
                }
            }
        }
        for f in &self.fns {
            items.push(Item::Fn(f.clone()));
        }
        self.in_main = true;
        let mut env: Env = vec![];
        let max = self.cfg.max_stmts;
        let body = self.block_min(&mut env, max);
        self.in_main = false;
        let ret = if self.t.chance(1, 6) { Some(Ty::unit()) } else { None };
        items.push(Item::Fn(FnDef { name: "main".to_string(), params: vec![], ret, body }));
        if self.t.chance(1, 8) {
            let at = self.t.index(items.len() + 1);
            items.insert(at, Item::Mod("mod witness { const IGNORED: u8 = 1; }".to_string()));
            self.label("item:mod");
        }
        Program { items }
    }

    /// main body: at least one statement
    fn block_min(&mut self, env: &mut Env, max_stmts: usize) -> Expr {
        env.push(vec![]);
        let n = 1 + self.t.index(max_stmts);
        let mut stmts = vec![];
        for _ in 0..n {
            self.statement(env, 0, &mut stmts);
        }
        let last = if self.t.chance(1, 4) { Some(Box::new(self.expr(env, &Ty::unit(), 1))) } else { None };
        env.pop();
        Expr::Block(stmts, last)
    }
}

/// Generate a self-checking program.
pub fn generate(t: &mut Tape, cfg: GenCfg) -> Generated {
    let mut g = Gen::new(t, cfg);
    let raw = g.program();
    let n_holes = g.n_holes;
    // at most one deliberately wrong constant per program
    let mut perturb = vec![false; n_holes];
    let mut perturbed = false;
    if n_holes > 0 && g.t.chance(1, 5) {
        let i = g.t.index(n_holes);
        perturb[i] = true;
        perturbed = true;
    }
    let witnesses = std::mem::take(&mut g.witnesses);
    let params = std::mem::take(&mut g.params);
    let labels = std::mem::take(&mut g.labels);
    let wm: HashMap<String, Val> = witnesses.iter().map(|(n, v, _)| (n.clone(), v.clone())).collect();
    let pm: HashMap<String, Val> = params.iter().map(|(n, v, _)| (n.clone(), v.clone())).collect();
    let (prog, verdict) = eval::fill_holes(&raw, &wm, &pm, perturb);
    Generated {
        prog,
        witnesses,
        params,
        labels,
        intended_verdict: verdict,
        n_holes,
        perturbed,
    }
}
