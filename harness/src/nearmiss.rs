//! Single typed edits ("near misses") of a well-typed model program. The result is
//! re-rendered, so it always parses (unless the edit is a raw snippet); `tycheck`
//! classifies it. Only edits whose classification follows from the rule list of C04 are made.

use crate::gen::cast_partner;
use crate::model::*;
use crate::tape::Tape;
use crate::valgen::{self, TyCfg};

#[derive(Clone, Copy, Debug, PartialEq, Eq)]
pub enum Kind {
    RetypeLet,
    RetypeParam,
    RetypeRet,
    RetypeBinder,
    RetypeAlias,
    RetypeCallTy,
    CallArity,
    TupleArity,
    ArrayArity,
    PatArity,
    ArraySize,
    ListFull,
    ListBound,
    LitOverflow,
    LitDigits,
    VarUndefined,
    VarOther,
    SwapStmts,
    CallUndefinedFn,
    AliasUndefined,
    JetUndefined,
    JetReserved,
    PatDupName,
    FnDuplicate,
    MainDuplicate,
    MainRemove,
    MainParam,
    MainResult,
    WitnessDup,
    WitnessInFn,
    MoveItemDown,
    FoldWrongFn,
    LoopWrongFn,
    BadArms,
    ParamDupName,
    DropFinalExpr,
    WrongLiteral,
    SwapArgs,
    LeakVar,
    ShadowInner,
    ShadowOuter,
    ParamTwoTypes,
    ItemAfterMain,
}

pub const ALL_KINDS: &[Kind] = &[
    Kind::RetypeLet, Kind::RetypeParam, Kind::RetypeRet, Kind::RetypeBinder, Kind::RetypeAlias, Kind::RetypeCallTy,
    Kind::CallArity, Kind::TupleArity, Kind::ArrayArity, Kind::PatArity, Kind::ArraySize, Kind::ListFull, Kind::ListBound,
    Kind::LitOverflow, Kind::LitDigits, Kind::VarUndefined, Kind::VarOther, Kind::SwapStmts, Kind::CallUndefinedFn,
    Kind::AliasUndefined, Kind::JetUndefined, Kind::JetReserved, Kind::PatDupName, Kind::FnDuplicate, Kind::MainDuplicate,
    Kind::MainRemove, Kind::MainParam, Kind::MainResult, Kind::WitnessDup, Kind::WitnessInFn, Kind::MoveItemDown,
    Kind::FoldWrongFn, Kind::LoopWrongFn, Kind::BadArms, Kind::ParamDupName, Kind::DropFinalExpr, Kind::WrongLiteral,
    Kind::SwapArgs, Kind::LeakVar, Kind::ShadowInner, Kind::ShadowOuter, Kind::ParamTwoTypes, Kind::ItemAfterMain,
];

impl Kind {
    pub fn name(self) -> String {
        format!("{self:?}")
    }
}

struct M<'a> {
    kind: Kind,
    target: usize,
    count: usize,
    t: &'a mut Tape,
    applied: bool,
    fn_names: Vec<String>,
    wit_names: Vec<String>,
    param_names: Vec<String>,
    in_main: bool,
}

/// `(type, expression of that type)` for a shadowing binding.
fn shadow_binding(t: &mut Tape) -> (Ty, Expr) {
    let ty = match t.index(6) {
        0 => Ty::Bool,
        1 => Ty::UInt(8),
        2 => Ty::UInt(16),
        3 => Ty::unit(),
        4 => Ty::UInt(32),
        _ => valgen::gen_ty(t, &TyCfg::SMALL, 1),
    };
    let v = valgen::gen_val(t, &ty);
    let e = crate::render::val_to_expr(&v, &ty, false);
    (ty, e)
}

fn other_type(t: &mut Tape, ty: &Ty) -> Ty {
    // (i) layout-equal different type, (ii) same width other shape, (iii) unrelated
    match t.weighted(&[3, 2, 3]) {
        0 => cast_partner(t, ty).unwrap_or(Ty::Bool),
        1 => match ty.resolved_head() {
            Ty::UInt(8) => Ty::array(Ty::UInt(1), 8),
            Ty::UInt(n) if *n >= 2 => Ty::Tuple(vec![Ty::UInt(n / 2), Ty::UInt(n / 2), Ty::unit()]),
            Ty::Bool => Ty::UInt(1),
            _ => Ty::option(ty.clone()),
        },
        _ => valgen::gen_ty(t, &TyCfg::SMALL, 1),
    }
}

impl<'a> M<'a> {
    /// Is this the chosen site of the chosen kind?
    fn hit(&mut self, k: Kind) -> bool {
        if self.kind != k || self.applied {
            return false;
        }
        let me = self.count;
        self.count += 1;
        if me == self.target {
            self.applied = true;
            true
        } else {
            false
        }
    }

    fn ty(&mut self, ty: &mut Ty) {
        // sites inside types
        match ty {
            Ty::Alias(n, _) => {
                if self.hit(Kind::AliasUndefined) {
                    *n = "Undefined9".to_string();
                }
            }
            Ty::Array(a, n) => {
                if self.hit(Kind::ArraySize) {
                    if *n > 0 && self.t.bool() {
                        *n -= 1
                    } else {
                        *n += 1
                    }
                    return;
                }
                self.ty(a);
            }
            Ty::List(a, n) => {
                if self.hit(Kind::ListBound) {
                    match self.t.index(6) {
                        0 | 1 => *n = (*n / 2).max(1),
                        2 | 3 => *n *= 2,
                        // not a power of two
                        4 => *n += 1,
                        _ => *n = *n * 2 - 1,
                    }
                    return;
                }
                self.ty(a);
            }
            Ty::Either(a, b) => {
                self.ty(a);
                self.ty(b);
            }
            Ty::Option(a) => self.ty(a),
            Ty::Tuple(v) => v.iter_mut().for_each(|x| self.ty(x)),
            _ => {}
        }
    }

    fn pat(&mut self, p: &mut Pat) {
        match p {
            Pat::Tuple(ps) | Pat::Array(ps) => {
                if self.hit(Kind::PatArity) {
                    if ps.len() > 1 && self.t.bool() {
                        ps.pop();
                    } else {
                        ps.push(Pat::Ignore);
                    }
                    return;
                }
                if ps.len() >= 2 && self.hit(Kind::PatDupName) {
                    let n = match &ps[0] {
                        Pat::Id(n) => n.clone(),
                        _ => "dup".to_string(),
                    };
                    ps[0] = Pat::Id(n.clone());
                    let last = ps.len() - 1;
                    ps[last] = Pat::Id(n);
                    return;
                }
                ps.iter_mut().for_each(|x| self.pat(x));
            }
            _ => {}
        }
    }

    fn block(&mut self, stmts: &mut Vec<Stmt>, last: &mut Option<Box<Expr>>) {
        if stmts.len() >= 2 && self.hit(Kind::SwapStmts) {
            let i = self.t.index(stmts.len() - 1);
            stmts.swap(i, i + 1);
        }
        if last.is_some() && self.hit(Kind::DropFinalExpr) {
            let e = last.take().unwrap();
            stmts.push(Stmt::Expr(*e));
            return;
        }
        // a second read of a template parameter, usually at another type (a parameter has one type)
        if self.hit(Kind::ParamTwoTypes) {
            let fresh = self.param_names.is_empty();
            let name = if fresh { "FRESH_PARAM".to_string() } else { self.param_names[self.t.index(self.param_names.len())].clone() };
            let (ty, _) = shadow_binding(self.t);
            let at = if stmts.is_empty() { 0 } else { self.t.index(stmts.len() + 1) };
            stmts.insert(at, Stmt::Let(Pat::Ignore, ty, Expr::Param(name.clone())));
            if fresh {
                // a program without parameters gets two reads, usually at two types
                let (ty2, _) = shadow_binding(self.t);
                let at2 = self.t.index(stmts.len() + 1);
                stmts.insert(at2, Stmt::Let(Pat::Ignore, ty2, Expr::Param(name)));
            }
            return;
        }
        // shadowing across scopes: bind, in this block, a name that a nested block binds again
        // (usually with another type); well-typed, the inner binding wins
        if self.hit(Kind::ShadowOuter) {
            let mut inner_name = None;
            for s in stmts.iter() {
                let e = match s {
                    Stmt::Let(_, _, e) | Stmt::Expr(e) => e,
                };
                walk_expr(e, &mut |x| match x {
                    Expr::Block(ss, _) => {
                        for s in ss {
                            if let Stmt::Let(Pat::Id(n), _, _) = s {
                                if inner_name.is_none() || self.t.index(3) == 0 {
                                    inner_name = Some(n.clone());
                                }
                            }
                        }
                    }
                    Expr::Match { left, right, .. } => {
                        for a in [left, right] {
                            if let Some((n, _)) = &a.binder {
                                if inner_name.is_none() || self.t.index(3) == 0 {
                                    inner_name = Some(n.clone());
                                }
                            }
                        }
                    }
                    _ => {}
                });
            }
            let (ty, e) = shadow_binding(self.t);
            stmts.insert(0, Stmt::Let(Pat::Id(inner_name.unwrap_or_else(|| "shadow_unused".to_string())), ty, e));
            return;
        }
        // leak: use a variable bound inside a nested block after that block closed
        if self.hit(Kind::LeakVar) {
            let mut inner_name = None;
            for s in stmts.iter() {
                let e = match s {
                    Stmt::Let(_, _, e) | Stmt::Expr(e) => e,
                };
                walk_expr(e, &mut |x| {
                    if let Expr::Block(ss, _) = x {
                        for s in ss {
                            if let Stmt::Let(Pat::Id(n), t, _) = s {
                                if inner_name.is_none() {
                                    inner_name = Some((n.clone(), t.clone()));
                                }
                            }
                        }
                    }
                });
            }
            if let Some((n, t)) = inner_name {
                stmts.push(Stmt::Let(Pat::Ignore, t, Expr::Var(n)));
            } else {
                stmts.push(Stmt::Let(Pat::Ignore, Ty::UInt(8), Expr::Var("never_bound".to_string())));
            }
            return;
        }
        for s in stmts.iter_mut() {
            match s {
                Stmt::Let(p, ty, e) => {
                    if self.hit(Kind::RetypeLet) {
                        *ty = other_type(self.t, ty);
                        continue;
                    }
                    self.ty(ty);
                    self.pat(p);
                    self.expr(e);
                }
                Stmt::Expr(e) => self.expr(e),
            }
        }
        if let Some(l) = last {
            self.expr(l);
        }
    }

    fn expr(&mut self, e: &mut Expr) {
        if self.applied {
            return;
        }
        // whole-expression replacements
        match e {
            Expr::Int(v, bits, style) => {
                if self.hit(Kind::LitOverflow) {
                    // 2^N in decimal
                    let text = if *bits == 256 {
                        "115792089237316195423570985008687907853269984665640564039457584007913129639936".to_string()
                    } else {
                        let max = U256::max_of(*bits);
                        // max + 1
                        let (lo, c) = max.lo.overflowing_add(1);
                        U256 { hi: max.hi + c as u128, lo }.to_decimal()
                    };
                    *e = Expr::RawLit(text);
                    return;
                }
                if *bits >= 8 && *bits <= 64 && self.hit(Kind::LitDigits) {
                    let more = self.t.bool();
                    let text = if *style == LitStyle::Hex || self.t.bool() {
                        let d = v.to_hex(*bits);
                        if more {
                            format!("0x0{d}")
                        } else {
                            format!("0x{}", &d[1..])
                        }
                    } else {
                        let d = v.to_bin(*bits);
                        if more {
                            format!("0b0{d}")
                        } else {
                            format!("0b{}", &d[1..])
                        }
                    };
                    *e = Expr::RawLit(text);
                    return;
                }
                if self.hit(Kind::WrongLiteral) {
                    *e = if self.t.bool() { Expr::Bool(true) } else { Expr::Tuple(vec![]) };
                    return;
                }
            }
            Expr::Bool(_) => {
                if self.hit(Kind::WrongLiteral) {
                    *e = if self.t.bool() { Expr::Int(U256::from_u128(1), 8, LitStyle::Dec) } else { Expr::None };
                    return;
                }
            }
            Expr::Var(n) => {
                if self.hit(Kind::VarUndefined) {
                    *n = "undefined_var".to_string();
                    return;
                }
                if self.hit(Kind::VarOther) {
                    *n = ["a", "b", "c", "x", "y", "z", "acc", "e", "i", "ctx"][self.t.index(10)].to_string();
                    return;
                }
                // re-bind the variable in a nested block around its use, usually with another type
                if self.hit(Kind::ShadowInner) {
                    let name = n.clone();
                    let (ty, v) = shadow_binding(self.t);
                    *e = Expr::Block(vec![Stmt::Let(Pat::Id(name.clone()), ty, v)], Some(Box::new(Expr::Var(name))));
                    return;
                }
            }
            Expr::Witness(n) => {
                if self.wit_names.len() >= 2 && self.hit(Kind::WitnessDup) {
                    let others: Vec<&String> = self.wit_names.iter().filter(|m| *m != n).collect();
                    *n = others[self.t.index(others.len())].clone();
                    return;
                }
            }
            _ => {}
        }
        if !self.in_main && !matches!(e, Expr::Block(..)) && self.hit(Kind::WitnessInFn) {
            *e = Expr::Witness("WFN".to_string());
            return;
        }
        match e {
            Expr::Tuple(v) => {
                if self.hit(Kind::TupleArity) {
                    if !v.is_empty() && self.t.bool() {
                        v.pop();
                    } else {
                        v.push(Expr::Tuple(vec![]));
                    }
                    return;
                }
                v.iter_mut().for_each(|x| self.expr(x));
            }
            Expr::Array(v) => {
                if self.hit(Kind::ArrayArity) {
                    if !v.is_empty() && self.t.bool() {
                        v.pop();
                    } else {
                        let x = v.first().cloned().unwrap_or(Expr::Tuple(vec![]));
                        v.push(x);
                    }
                    return;
                }
                v.iter_mut().for_each(|x| self.expr(x));
            }
            Expr::List(v) => {
                // fill the list up to a power of two: exactly as many elements as the smallest bound
                // that held it (one too many for `List<T, N>`, which holds fewer than N)
                if !v.is_empty() && self.hit(Kind::ListFull) {
                    let mut n = 2;
                    while n <= v.len() {
                        n *= 2;
                    }
                    if self.t.index(4) == 0 {
                        n *= 2;
                    }
                    let x = v[0].clone();
                    while v.len() < n {
                        v.push(x.clone());
                    }
                    return;
                }
                v.iter_mut().for_each(|x| self.expr(x))
            }
            Expr::Left(x) | Expr::Right(x) | Expr::Some(x) | Expr::Paren(x) => self.expr(x),
            Expr::Block(stmts, last) => self.block(stmts, last),
            Expr::Match { kind, scrut, left, right, .. } => {
                if self.hit(Kind::BadArms) {
                    let txt = match kind {
                        MatchKind::Bool => "match true { true => (), true => (), }",
                        MatchKind::Option => "match None { None => (), false => (), }",
                        MatchKind::Either => "match Left(1) { Left(q: u8) => (), Left(r: u8) => (), }",
                    };
                    *e = Expr::RawLit(txt.to_string());
                    return;
                }
                self.expr(scrut);
                for arm in [left, right] {
                    if let Some((_, t)) = &mut arm.binder {
                        if self.hit(Kind::RetypeBinder) {
                            *t = other_type(self.t, t);
                            continue;
                        }
                        self.ty(t);
                    }
                    self.expr(&mut arm.body);
                }
            }
            Expr::Call(name, args) => {
                if self.hit(Kind::CallArity) {
                    if !args.is_empty() && self.t.bool() {
                        args.pop();
                    } else {
                        let x = args.first().cloned().unwrap_or(Expr::Tuple(vec![]));
                        args.push(x);
                    }
                    return;
                }
                if args.len() >= 2 && self.hit(Kind::SwapArgs) {
                    let i = self.t.index(args.len() - 1);
                    args.swap(i, i + 1);
                    return;
                }
                match name {
                    CallName::UnwrapLeft(t) | CallName::UnwrapRight(t) | CallName::IsNone(t) | CallName::Cast(t) => {
                        if self.hit(Kind::RetypeCallTy) {
                            *t = other_type(self.t, t);
                            return;
                        }
                        self.ty(t);
                    }
                    CallName::Fn(f) => {
                        if self.hit(Kind::CallUndefinedFn) {
                            *f = "undefined_fn".to_string();
                            return;
                        }
                    }
                    CallName::Jet(j) => {
                        if self.hit(Kind::JetUndefined) {
                            *j = format!("{j}_nope");
                            return;
                        }
                    }
                    CallName::Fold(f, _) => {
                        if self.hit(Kind::FoldWrongFn) {
                            *f = if self.fn_names.is_empty() { "undefined_fn".to_string() } else { self.fn_names[self.t.index(self.fn_names.len())].clone() };
                            return;
                        }
                    }
                    CallName::ForWhile(f) => {
                        if self.hit(Kind::LoopWrongFn) {
                            *f = if self.fn_names.is_empty() { "undefined_fn".to_string() } else { self.fn_names[self.t.index(self.fn_names.len())].clone() };
                            return;
                        }
                    }
                    CallName::Assert => {
                        if self.hit(Kind::JetReserved) {
                            *name = CallName::Jet(if self.t.bool() { "verify".to_string() } else { "check_sig_verify".to_string() });
                            return;
                        }
                    }
                    _ => {}
                }
                args.iter_mut().for_each(|x| self.expr(x));
            }
            _ => {}
        }
    }

    fn program(&mut self, p: &mut Program) {
        // item-level edits
        let n_items = p.items.len();
        let fn_idx: Vec<usize> = p.items.iter().enumerate().filter(|(_, it)| matches!(it, Item::Fn(f) if f.name != "main")).map(|(i, _)| i).collect();
        let main_idx = p.items.iter().position(|it| matches!(it, Item::Fn(f) if f.name == "main"));
        if !fn_idx.is_empty() && self.hit(Kind::FnDuplicate) {
            let i = fn_idx[self.t.index(fn_idx.len())];
            let dup = p.items[i].clone();
            let at = self.t.index(n_items + 1);
            p.items.insert(at, dup);
            return;
        }
        if let Some(mi) = main_idx {
            if self.hit(Kind::MainDuplicate) {
                let dup = if self.t.bool() { p.items[mi].clone() } else { Item::Fn(FnDef { name: "main".into(), params: vec![], ret: None, body: Expr::Block(vec![], None) }) };
                let at = self.t.index(n_items + 1);
                p.items.insert(at, dup);
                return;
            }
            if self.hit(Kind::MainRemove) {
                p.items.remove(mi);
                return;
            }
            if self.hit(Kind::MainParam) {
                if let Item::Fn(f) = &mut p.items[mi] {
                    f.params.push(("q".into(), Ty::UInt(8)));
                }
                return;
            }
            if self.hit(Kind::MainResult) {
                if let Item::Fn(f) = &mut p.items[mi] {
                    f.ret = Some(if self.t.bool() { Ty::UInt(8) } else { Ty::Bool });
                }
                return;
            }
        }
        // a function defined after main (nothing calls it): plain (well-typed), reading a witness
        // (only main may), calling main's helpers, or with an ill-typed body
        if main_idx.is_some() && self.hit(Kind::ItemAfterMain) {
            let body = match self.t.index(4) {
                0 => Expr::Block(vec![Stmt::Let(Pat::Id("late".into()), Ty::UInt(8), Expr::Int(U256::from_u128(7), 8, LitStyle::Dec))], None),
                1 => Expr::Block(vec![Stmt::Let(Pat::Ignore, Ty::UInt(8), Expr::Witness("LATE_WITNESS".into()))], None),
                2 => Expr::Block(vec![Stmt::Let(Pat::Ignore, Ty::UInt(8), Expr::Bool(true))], None),
                _ => {
                    let w = if self.wit_names.is_empty() { "LATE_WITNESS".to_string() } else { self.wit_names[self.t.index(self.wit_names.len())].clone() };
                    Expr::Block(vec![Stmt::Let(Pat::Ignore, Ty::UInt(8), Expr::Witness(w))], None)
                }
            };
            p.items.push(Item::Fn(FnDef { name: "defined_after_main".into(), params: vec![], ret: None, body }));
            return;
        }
        if n_items >= 2 && self.hit(Kind::MoveItemDown) {
            // move a non-main item to the end (below everything that might use it)
            let cands: Vec<usize> = (0..n_items).filter(|i| Some(*i) != main_idx && !matches!(p.items[*i], Item::Mod(_))).collect();
            if !cands.is_empty() {
                let i = cands[self.t.index(cands.len())];
                let it = p.items.remove(i);
                p.items.push(it);
            }
            return;
        }
        for item in p.items.iter_mut() {
            if self.applied {
                return;
            }
            match item {
                Item::Alias(_, t) => {
                    if self.hit(Kind::RetypeAlias) {
                        *t = other_type(self.t, t);
                        continue;
                    }
                    self.ty(t);
                }
                Item::Fn(f) => {
                    self.in_main = f.name == "main";
                    if f.params.len() >= 2 && self.hit(Kind::ParamDupName) {
                        // give parameter i the name of parameter j (i != j)
                        let k = f.params.len();
                        let i = self.t.index(k);
                        let j = (i + 1 + self.t.index(k - 1)) % k;
                        let n = f.params[j].0.clone();
                        f.params[i].0 = n;
                        continue;
                    }
                    for (_, t) in f.params.iter_mut() {
                        if self.hit(Kind::RetypeParam) {
                            *t = if self.t.chance(1, 3) { [Ty::UInt(32), Ty::Bool, Ty::UInt(64)][self.t.index(3)].clone() } else { other_type(self.t, t) };
                            break;
                        }
                        self.ty(t);
                    }
                    if f.name != "main" && self.hit(Kind::RetypeRet) {
                        let cur = f.ret_ty();
                        f.ret = Some(other_type(self.t, &cur));
                        continue;
                    }
                    if let Some(r) = &mut f.ret {
                        self.ty(r);
                    }
                    if let Expr::Block(stmts, last) = &mut f.body {
                        self.block(stmts, last);
                    }
                }
                Item::Mod(_) => {}
            }
        }
    }
}

fn run(p: &Program, kind: Kind, target: usize, t: &mut Tape) -> (Program, usize, bool) {
    let mut q = p.clone();
    let fn_names: Vec<String> = p.functions().filter(|f| f.name != "main").map(|f| f.name.clone()).collect();
    let mut wit_names = vec![];
    walk_program(p, &mut |e| {
        if let Expr::Witness(n) = e {
            wit_names.push(n.clone());
        }
    });
    let mut param_names = vec![];
    walk_program(p, &mut |e| {
        if let Expr::Param(n) = e {
            if !param_names.contains(n) {
                param_names.push(n.clone());
            }
        }
    });
    let mut m = M { kind, target, count: 0, t, applied: false, fn_names, wit_names, param_names, in_main: false };
    m.program(&mut q);
    (q, m.count, m.applied)
}

/// Number of sites for an edit kind.
pub fn count_sites(p: &Program, kind: Kind) -> usize {
    let mut dummy = Tape::new(vec![]);
    run(p, kind, usize::MAX, &mut dummy).1
}

/// Apply one edit chosen from the tape. Returns the edited program and the edit kind.
pub fn edit(t: &mut Tape, p: &Program) -> Option<(Program, Kind)> {
    // choose a kind that has sites (up to a few tries), then a site
    for _ in 0..6 {
        let kind = ALL_KINDS[t.index(ALL_KINDS.len())];
        let n = count_sites(p, kind);
        if n == 0 {
            continue;
        }
        let target = t.index(n);
        let (q, _, applied) = run(p, kind, target, t);
        if applied && q != *p {
            return Some((q, kind));
        }
    }
    None
}

/// Apply the `site`-th edit of `kind` (for enumeration).
pub fn edit_at(t: &mut Tape, p: &Program, kind: Kind, site: usize) -> Option<Program> {
    let (q, _, applied) = run(p, kind, site, t);
    if applied && q != *p {
        Some(q)
    } else {
        None
    }
}
