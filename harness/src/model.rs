//! Model of the Simfony language, written from the book and the grammar.
//! Shares no code with simfony's own parse tree / AST.

use std::fmt;

/// 256-bit unsigned integer as two 128-bit limbs.
#[derive(Clone, Copy, Debug, PartialEq, Eq, PartialOrd, Ord, Hash)]
pub struct U256 {
    pub hi: u128,
    pub lo: u128,
}

impl U256 {
    pub const ZERO: U256 = U256 { hi: 0, lo: 0 };
    pub fn from_u128(lo: u128) -> Self {
        U256 { hi: 0, lo }
    }
    pub fn to_be_bytes(self) -> [u8; 32] {
        let mut b = [0u8; 32];
        b[..16].copy_from_slice(&self.hi.to_be_bytes());
        b[16..].copy_from_slice(&self.lo.to_be_bytes());
        b
    }
    pub fn from_be_bytes(b: [u8; 32]) -> Self {
        let mut hi = [0u8; 16];
        let mut lo = [0u8; 16];
        hi.copy_from_slice(&b[..16]);
        lo.copy_from_slice(&b[16..]);
        U256 {
            hi: u128::from_be_bytes(hi),
            lo: u128::from_be_bytes(lo),
        }
    }
    /// The maximal value of an n-bit integer.
    pub fn max_of(bits: u16) -> Self {
        match bits {
            256 => U256 {
                hi: u128::MAX,
                lo: u128::MAX,
            },
            128 => U256 {
                hi: 0,
                lo: u128::MAX,
            },
            b => U256 {
                hi: 0,
                lo: (1u128 << b) - 1,
            },
        }
    }
    pub fn bit(self, i: u16) -> bool {
        // i = 0 is the least significant bit
        if i >= 128 {
            (self.hi >> (i - 128)) & 1 == 1
        } else {
            (self.lo >> i) & 1 == 1
        }
    }
    pub fn flip_bit(self, i: u16) -> Self {
        if i >= 128 {
            U256 {
                hi: self.hi ^ (1u128 << (i - 128)),
                lo: self.lo,
            }
        } else {
            U256 {
                hi: self.hi,
                lo: self.lo ^ (1u128 << i),
            }
        }
    }
    /// Decimal text by schoolbook division on 32-bit limbs.
    pub fn to_decimal(self) -> String {
        let b = self.to_be_bytes();
        let mut limbs: Vec<u32> = b
            .chunks(4)
            .map(|c| u32::from_be_bytes([c[0], c[1], c[2], c[3]]))
            .collect();
        let mut digits = vec![];
        loop {
            let mut rem: u64 = 0;
            let mut all_zero = true;
            for l in limbs.iter_mut() {
                let cur = (rem << 32) | *l as u64;
                *l = (cur / 10) as u32;
                rem = cur % 10;
                if *l != 0 {
                    all_zero = false;
                }
            }
            digits.push(b'0' + rem as u8);
            if all_zero {
                break;
            }
        }
        digits.reverse();
        String::from_utf8(digits).unwrap()
    }
    pub fn to_hex(self, bits: u16) -> String {
        let full = format!("{:032x}{:032x}", self.hi, self.lo);
        let n = (bits as usize).div_ceil(4);
        full[full.len() - n..].to_string()
    }
    pub fn to_bin(self, bits: u16) -> String {
        (0..bits).rev().map(|i| if self.bit(i) { '1' } else { '0' }).collect()
    }
}

#[derive(Clone, Debug, PartialEq, Eq, Hash)]
pub enum Ty {
    Bool,
    UInt(u16),
    Either(Box<Ty>, Box<Ty>),
    Option(Box<Ty>),
    Tuple(Vec<Ty>),
    Array(Box<Ty>, usize),
    List(Box<Ty>, usize),
    /// user alias: name and the type it stands for
    Alias(String, Box<Ty>),
    /// builtin alias
    Builtin(&'static str, Box<Ty>),
}

pub const UINT_WIDTHS: [u16; 9] = [1, 2, 4, 8, 16, 32, 64, 128, 256];

impl Ty {
    pub fn unit() -> Ty {
        Ty::Tuple(vec![])
    }
    pub fn either(a: Ty, b: Ty) -> Ty {
        Ty::Either(Box::new(a), Box::new(b))
    }
    pub fn option(a: Ty) -> Ty {
        Ty::Option(Box::new(a))
    }
    pub fn array(a: Ty, n: usize) -> Ty {
        Ty::Array(Box::new(a), n)
    }
    pub fn list(a: Ty, n: usize) -> Ty {
        Ty::List(Box::new(a), n)
    }
    pub fn is_unit(&self) -> bool {
        matches!(self.resolved_head(), Ty::Tuple(v) if v.is_empty())
    }
    /// Strip aliases at the head only.
    pub fn resolved_head(&self) -> &Ty {
        match self {
            Ty::Alias(_, t) | Ty::Builtin(_, t) => t.resolved_head(),
            t => t,
        }
    }
    /// Strip all aliases.
    pub fn resolve(&self) -> Ty {
        match self {
            Ty::Alias(_, t) | Ty::Builtin(_, t) => t.resolve(),
            Ty::Bool => Ty::Bool,
            Ty::UInt(n) => Ty::UInt(*n),
            Ty::Either(a, b) => Ty::either(a.resolve(), b.resolve()),
            Ty::Option(a) => Ty::option(a.resolve()),
            Ty::Tuple(v) => Ty::Tuple(v.iter().map(Ty::resolve).collect()),
            Ty::Array(a, n) => Ty::array(a.resolve(), *n),
            Ty::List(a, n) => Ty::list(a.resolve(), *n),
        }
    }
    /// Nominal equality after alias resolution.
    pub fn same(&self, other: &Ty) -> bool {
        self.resolve() == other.resolve()
    }
    /// number of constructors (after resolution)
    pub fn size(&self) -> usize {
        match self {
            Ty::Alias(_, t) | Ty::Builtin(_, t) => t.size(),
            Ty::Bool | Ty::UInt(_) => 1,
            Ty::Either(a, b) => 1 + a.size() + b.size(),
            Ty::Option(a) | Ty::Array(a, _) | Ty::List(a, _) => 1 + a.size(),
            Ty::Tuple(v) => 1 + v.iter().map(Ty::size).sum::<usize>(),
        }
    }
    /// Number of values of the type, saturating at `cap`.
    pub fn cardinality(&self, cap: u128) -> u128 {
        let c = match self {
            Ty::Alias(_, t) | Ty::Builtin(_, t) => t.cardinality(cap),
            Ty::Bool => 2,
            Ty::UInt(n) => {
                if *n >= 100 {
                    cap
                } else {
                    1u128 << n
                }
            }
            Ty::Either(a, b) => a.cardinality(cap).saturating_add(b.cardinality(cap)),
            Ty::Option(a) => a.cardinality(cap).saturating_add(1),
            Ty::Tuple(v) => v.iter().fold(1u128, |acc, t| acc.saturating_mul(t.cardinality(cap)).min(cap)),
            Ty::Array(a, n) => {
                let c = a.cardinality(cap);
                let mut acc = 1u128;
                for _ in 0..*n {
                    acc = acc.saturating_mul(c).min(cap);
                    if acc >= cap {
                        break;
                    }
                }
                acc
            }
            Ty::List(a, n) => {
                let c = a.cardinality(cap);
                let mut acc = 0u128;
                let mut pow = 1u128;
                for _ in 0..*n {
                    acc = acc.saturating_add(pow).min(cap);
                    pow = pow.saturating_mul(c).min(cap);
                    if acc >= cap {
                        break;
                    }
                }
                acc
            }
        };
        c.min(cap)
    }
}

impl fmt::Display for Ty {
    fn fmt(&self, f: &mut fmt::Formatter<'_>) -> fmt::Result {
        match self {
            Ty::Bool => write!(f, "bool"),
            Ty::UInt(n) => write!(f, "u{n}"),
            Ty::Either(a, b) => write!(f, "Either<{a}, {b}>"),
            Ty::Option(a) => write!(f, "Option<{a}>"),
            Ty::Tuple(v) => {
                write!(f, "(")?;
                for (i, t) in v.iter().enumerate() {
                    if i > 0 {
                        write!(f, ", ")?;
                    }
                    write!(f, "{t}")?;
                }
                if v.len() == 1 {
                    write!(f, ",")?;
                }
                write!(f, ")")
            }
            Ty::Array(a, n) => write!(f, "[{a}; {n}]"),
            Ty::List(a, n) => write!(f, "List<{a}, {n}>"),
            Ty::Alias(n, _) => write!(f, "{n}"),
            Ty::Builtin(n, _) => write!(f, "{n}"),
        }
    }
}

/// The builtin aliases of the book (type_alias.md).
pub fn builtin_aliases() -> Vec<(&'static str, Ty)> {
    let u = Ty::UInt;
    let conf1 = || Ty::Tuple(vec![u(1), u(256)]);
    vec![
        ("Amount1", Ty::either(conf1(), u(64))),
        ("Asset1", Ty::either(conf1(), u(256))),
        ("Confidential1", conf1()),
        ("Ctx8", Ty::Tuple(vec![Ty::list(u(8), 64), Ty::Tuple(vec![u(64), u(256)])])),
        ("Distance", u(16)),
        ("Duration", u(16)),
        ("ExplicitAmount", u(64)), // the book's table says u256; the explicit part of Amount1 and total_fee are 64 bit (doc typo, see DESIGN appendix B)
        ("ExplicitAsset", u(256)),
        ("ExplicitNonce", u(256)),
        ("Fe", u(256)),
        ("Ge", Ty::Tuple(vec![u(256), u(256)])),
        ("Gej", Ty::Tuple(vec![Ty::Tuple(vec![u(256), u(256)]), u(256)])),
        ("Height", u(32)),
        ("Lock", u(32)),
        ("Message", u(256)),
        ("Message64", Ty::array(u(8), 64)),
        ("Nonce", Ty::either(conf1(), u(256))),
        ("Outpoint", Ty::Tuple(vec![u(256), u(32)])),
        ("Point", conf1()),
        ("Pubkey", u(256)),
        ("Scalar", u(256)),
        ("Signature", Ty::array(u(8), 64)),
        ("Time", u(32)),
        ("TokenAmount1", Ty::either(conf1(), u(64))),
    ]
}

pub fn builtin_alias(name: &str) -> Option<Ty> {
    builtin_aliases()
        .into_iter()
        .find(|(n, _)| *n == name)
        .map(|(n, t)| Ty::Builtin(n, Box::new(t)))
}

/// Values. They are structurally typed by the `Ty` they are used at.
#[derive(Clone, Debug, PartialEq, Eq, Hash)]
pub enum Val {
    Bool(bool),
    UInt(u16, U256),
    Left(Box<Val>),
    Right(Box<Val>),
    None,
    Some(Box<Val>),
    Tuple(Vec<Val>),
    Array(Vec<Val>),
    List(Vec<Val>),
}

impl Val {
    pub fn unit() -> Val {
        Val::Tuple(vec![])
    }
    pub fn uint(bits: u16, v: u128) -> Val {
        Val::UInt(bits, U256::from_u128(v))
    }
    pub fn as_u128(&self) -> Option<u128> {
        match self {
            Val::UInt(_, v) if v.hi == 0 => Some(v.lo),
            _ => None,
        }
    }
    /// Does the value inhabit the (resolved) type?
    pub fn has_type(&self, ty: &Ty) -> bool {
        match (self, ty.resolved_head()) {
            (Val::Bool(_), Ty::Bool) => true,
            (Val::UInt(b, v), Ty::UInt(n)) => b == n && *v <= U256::max_of(*n),
            (Val::Left(v), Ty::Either(a, _)) => v.has_type(a),
            (Val::Right(v), Ty::Either(_, b)) => v.has_type(b),
            (Val::None, Ty::Option(_)) => true,
            (Val::Some(v), Ty::Option(a)) => v.has_type(a),
            (Val::Tuple(vs), Ty::Tuple(ts)) => vs.len() == ts.len() && vs.iter().zip(ts).all(|(v, t)| v.has_type(t)),
            (Val::Array(vs), Ty::Array(a, n)) => vs.len() == *n && vs.iter().all(|v| v.has_type(a)),
            (Val::List(vs), Ty::List(a, n)) => vs.len() < *n && vs.iter().all(|v| v.has_type(a)),
            _ => false,
        }
    }
    pub fn size(&self) -> usize {
        match self {
            Val::Bool(_) | Val::UInt(..) | Val::None => 1,
            Val::Left(v) | Val::Right(v) | Val::Some(v) => 1 + v.size(),
            Val::Tuple(v) | Val::Array(v) | Val::List(v) => 1 + v.iter().map(Val::size).sum::<usize>(),
        }
    }
}

#[derive(Clone, Copy, Debug, PartialEq, Eq, Hash)]
pub enum LitStyle {
    Dec,
    Bin,
    Hex,
}

#[derive(Clone, Debug, PartialEq, Eq, Hash)]
pub enum Pat {
    Id(String),
    Ignore,
    Tuple(Vec<Pat>),
    Array(Vec<Pat>),
}

impl Pat {
    pub fn names(&self, out: &mut Vec<String>) {
        match self {
            Pat::Id(n) => out.push(n.clone()),
            Pat::Ignore => {}
            Pat::Tuple(ps) | Pat::Array(ps) => ps.iter().for_each(|p| p.names(out)),
        }
    }
}

#[derive(Clone, Debug, PartialEq, Eq, Hash)]
pub enum CallName {
    Jet(String),
    UnwrapLeft(Ty),
    UnwrapRight(Ty),
    Unwrap,
    IsNone(Ty),
    Assert,
    Panic,
    Dbg,
    Cast(Ty),
    Fn(String),
    Fold(String, usize),
    ForWhile(String),
}

#[derive(Clone, Copy, Debug, PartialEq, Eq, Hash)]
pub enum MatchKind {
    Bool,
    Option,
    Either,
}

/// One arm of a match. `binder` is `Some((name, type))` for `Left/Right/Some` arms.
#[derive(Clone, Debug, PartialEq, Eq, Hash)]
pub struct Arm {
    pub binder: Option<(String, Ty)>,
    pub body: Expr,
}

#[derive(Clone, Debug, PartialEq, Eq, Hash)]
pub enum Expr {
    /// bool literal
    Bool(bool),
    /// integer literal: value, width it was generated at (fixes the digit count of binary /
    /// hex notation; decimal text has no width and is typed by its context), notation
    Int(U256, u16, LitStyle),
    /// literal given as raw text (decorated forms for C11 / near misses)
    RawLit(String),
    /// hex literal denoting a byte array
    HexBytes(Vec<u8>),
    Var(String),
    Witness(String),
    Param(String),
    Tuple(Vec<Expr>),
    Array(Vec<Expr>),
    List(Vec<Expr>),
    Left(Box<Expr>),
    Right(Box<Expr>),
    Some(Box<Expr>),
    None,
    Paren(Box<Expr>),
    Block(Vec<Stmt>, Option<Box<Expr>>),
    /// `first_is_left`: whether the left-like arm (Left / None / false) is written first
    Match {
        kind: MatchKind,
        scrut: Box<Expr>,
        left: Box<Arm>,
        right: Box<Arm>,
        left_first: bool,
    },
    Call(CallName, Vec<Expr>),
    /// observation hole, filled after the recording run (see gen)
    Hole(usize),
}

#[derive(Clone, Debug, PartialEq, Eq, Hash)]
pub enum Stmt {
    Let(Pat, Ty, Expr),
    Expr(Expr),
}

#[derive(Clone, Debug, PartialEq, Eq, Hash)]
pub struct FnDef {
    pub name: String,
    pub params: Vec<(String, Ty)>,
    /// `None`: no `-> T` written (unit)
    pub ret: Option<Ty>,
    /// always a block
    pub body: Expr,
}

impl FnDef {
    pub fn ret_ty(&self) -> Ty {
        self.ret.clone().unwrap_or_else(Ty::unit)
    }
}

#[derive(Clone, Debug, PartialEq, Eq, Hash)]
pub enum Item {
    Alias(String, Ty),
    Fn(FnDef),
    /// a `mod witness {..}` / `mod param {..}` item with raw body text (ignored by the compiler)
    Mod(String),
}

#[derive(Clone, Debug, PartialEq, Eq, Hash, Default)]
pub struct Program {
    pub items: Vec<Item>,
}

impl Program {
    pub fn functions(&self) -> impl Iterator<Item = &FnDef> {
        self.items.iter().filter_map(|i| match i {
            Item::Fn(f) => Some(f),
            _ => None,
        })
    }
    pub fn main(&self) -> Option<&FnDef> {
        self.functions().find(|f| f.name == "main")
    }
    pub fn function(&self, name: &str) -> Option<&FnDef> {
        self.functions().find(|f| f.name == name)
    }
}

/// Visit every expression (pre-order).
pub fn walk_expr<'a>(e: &'a Expr, f: &mut dyn FnMut(&'a Expr)) {
    f(e);
    match e {
        Expr::Tuple(v) | Expr::Array(v) | Expr::List(v) => v.iter().for_each(|x| walk_expr(x, f)),
        Expr::Left(x) | Expr::Right(x) | Expr::Some(x) | Expr::Paren(x) => walk_expr(x, f),
        Expr::Block(stmts, last) => {
            for s in stmts {
                match s {
                    Stmt::Let(_, _, x) | Stmt::Expr(x) => walk_expr(x, f),
                }
            }
            if let Some(l) = last {
                walk_expr(l, f)
            }
        }
        Expr::Match { scrut, left, right, .. } => {
            walk_expr(scrut, f);
            walk_expr(&left.body, f);
            walk_expr(&right.body, f);
        }
        Expr::Call(_, args) => args.iter().for_each(|x| walk_expr(x, f)),
        _ => {}
    }
}

pub fn walk_expr_mut(e: &mut Expr, f: &mut dyn FnMut(&mut Expr)) {
    f(e);
    match e {
        Expr::Tuple(v) | Expr::Array(v) | Expr::List(v) => v.iter_mut().for_each(|x| walk_expr_mut(x, f)),
        Expr::Left(x) | Expr::Right(x) | Expr::Some(x) | Expr::Paren(x) => walk_expr_mut(x, f),
        Expr::Block(stmts, last) => {
            for s in stmts {
                match s {
                    Stmt::Let(_, _, x) | Stmt::Expr(x) => walk_expr_mut(x, f),
                }
            }
            if let Some(l) = last {
                walk_expr_mut(l, f)
            }
        }
        Expr::Match { scrut, left, right, .. } => {
            walk_expr_mut(scrut, f);
            walk_expr_mut(&mut left.body, f);
            walk_expr_mut(&mut right.body, f);
        }
        Expr::Call(_, args) => args.iter_mut().for_each(|x| walk_expr_mut(x, f)),
        _ => {}
    }
}

pub fn walk_program<'a>(p: &'a Program, f: &mut dyn FnMut(&'a Expr)) {
    for func in p.functions() {
        walk_expr(&func.body, f);
    }
}
