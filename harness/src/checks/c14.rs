//! C14 - debug symbols are behaviour-neutral and point at the right call.

use std::collections::HashSet;

use serde_json::json;
use simfony::debug::TrackedCallName;
use simfony::either::Either;
use simfony::simplicity::dag::{DagLike, InternalSharing};
use simfony::simplicity::node::Inner;
use simfony::simplicity::{Cmr, FailEntropy};
use simfony::value::StructuralValue;

use crate::checks::c01::check_maps;
use crate::checks::common::*;
use crate::conv;
use crate::gen::{self, GenCfg};
use crate::model::*;
use crate::pipe;
use crate::render::{self, SiteKind, Style};
use crate::run::{catch, panic_site, Ctx, Failure, Kind, PropertyDef, Stream, Tier};
use crate::tape::{digest, Tape};
use crate::valgen;

fn strip_ws(s: &str) -> String {
    s.chars().filter(|c| !c.is_whitespace()).collect()
}

fn reachable_functions(p: &Program) -> HashSet<String> {
    let mut seen: HashSet<String> = HashSet::new();
    let mut todo = vec!["main".to_string()];
    while let Some(f) = todo.pop() {
        if !seen.insert(f.clone()) {
            continue;
        }
        if let Some(def) = p.function(&f) {
            walk_expr(&def.body, &mut |e| {
                if let Expr::Call(name, _) = e {
                    match name {
                        CallName::Fn(g) | CallName::Fold(g, _) | CallName::ForWhile(g) => todo.push(g.clone()),
                        _ => {}
                    }
                }
            });
        }
    }
    seen
}

fn kind_matches(kind: &SiteKind, name: &TrackedCallName) -> bool {
    matches!(
        (kind, name),
        (SiteKind::Assert, TrackedCallName::Assert)
            | (SiteKind::Panic, TrackedCallName::Panic)
            | (SiteKind::Jet, TrackedCallName::Jet)
            | (SiteKind::UnwrapLeft, TrackedCallName::UnwrapLeft(_))
            | (SiteKind::UnwrapRight, TrackedCallName::UnwrapRight(_))
            | (SiteKind::Unwrap, TrackedCallName::Unwrap)
            | (SiteKind::Dbg, TrackedCallName::Debug(_))
    )
}

fn s_markers(t: &mut Tape, ctx: &mut Ctx) -> Result<(), Failure> {
    let cfg = if t.bool() { GenCfg::small() } else { GenCfg::general() };
    let g = gen::generate(t, cfg);
    let style = Style::from_seed(t.next() as u64);
    let (text, sites) = render::render_with_sites(&g.prog, &style);
    require_well_typed(&g, &text)?;
    // (a) behaviour neutrality: debug on == debug off == interpreter
    let (maps, _) = assignments(t, &g, 64, 3);
    check_maps(&g, &text, &maps, ctx, "c14", &[true, false])?;
    // (b) markers
    let c = compile(&text, to_arguments(&g), true, "c14")?;
    let detail = json!({"program": text, "style": style.describe()});
    let fail_cmr = Cmr::fail(FailEntropy::ZERO);
    let markers: Vec<Cmr> = catch(|| {
        let node = c.program.commit();
        let mut out = vec![];
        for item in node.as_ref().post_order_iter::<InternalSharing>() {
            if let Inner::AssertL(_, cmr) = item.node.inner() {
                if *cmr != fail_cmr && !out.contains(cmr) {
                    out.push(*cmr);
                }
            }
        }
        out
    })
    .map_err(|p| Failure::new(format!("panic:{}", panic_site(&p)), format!("commit() of the debug build panicked: {p}")))?;
    let symbols = c.program.debug_symbols();
    let reach = reachable_functions(&g.prog);
    let reachable_sites: Vec<&render::Site> = sites.iter().filter(|s| s.in_function.as_ref().map_or(true, |f| reach.contains(f))).collect();
    // candidate sites of every marker: kind matches and the text is the call text (or, for dbg!, its argument)
    let whole: Vec<String> = reachable_sites.iter().map(|s| strip_ws(&text[s.start..s.end])).collect();
    let args: Vec<Option<String>> = reachable_sites.iter().map(|s| s.arg.map(|(a, b)| strip_ws(&text[a..b]))).collect();
    let mut cands: Vec<Vec<usize>> = vec![];
    ctx.evals(markers.len() as u64);
    for m in &markers {
        let Some(tc) = symbols.get(m) else {
            return Err(Failure::new("c14:marker-without-debug-symbol", format!("the debug build contains the marker {m} which debug_symbols() does not know\n{}", truncate(&text, 2500))).with(detail));
        };
        let mt = strip_ws(tc.text());
        let by_text: Vec<usize> = (0..reachable_sites.len()).filter(|i| whole[*i] == mt || (reachable_sites[*i].kind == SiteKind::Dbg && args[*i].as_deref() == Some(mt.as_str()))).collect();
        if by_text.is_empty() {
            return Err(Failure::new(
                "c14:marker-text-is-no-call-of-the-program",
                format!("marker {m} resolves to the text `{}` ({:?}) which is not the text of any tracked call site reachable from main\n--- program ---\n{}", tc.text(), tc.name(), truncate(&text, 2500)),
            )
            .with(detail));
        }
        let by_kind: Vec<usize> = by_text.iter().copied().filter(|i| kind_matches(&reachable_sites[*i].kind, tc.name())).collect();
        if by_kind.is_empty() {
            return Err(Failure::new("c14:marker-kind-differs", format!("marker text `{}` has kind {:?} but the call site with that text is {:?}\n{}", tc.text(), tc.name(), reachable_sites[by_text[0]].kind, truncate(&text, 2500))).with(detail));
        }
        cands.push(by_kind);
        // (c) value reconstruction at the API boundary
        let rt = match tc.name() {
            TrackedCallName::Debug(ty) | TrackedCallName::UnwrapLeft(ty) | TrackedCallName::UnwrapRight(ty) => Some(ty.clone()),
            _ => None,
        };
        if let Some(rt) = rt {
            let mty = conv::from_resolved(&rt);
            if mty.size() < 60 {
                let v = valgen::gen_val(t, &mty);
                let sv = conv::to_value(&v, &mty);
                let mapped = catch(|| tc.map_value(&StructuralValue::from(&sv))).map_err(|p| Failure::new(format!("panic:{}", panic_site(&p)), format!("map_value panicked: {p}")))?;
                let got = match &mapped {
                    Some(Either::Right(dv)) => Some(dv.value().clone()),
                    Some(Either::Left(fc)) => match fc.name() {
                        simfony::debug::FallibleCallName::UnwrapLeft(x) | simfony::debug::FallibleCallName::UnwrapRight(x) => Some(x.clone()),
                        _ => None,
                    },
                    None => None,
                };
                if got.as_ref() != Some(&sv) {
                    return Err(Failure::new("c14:map-value-does-not-return-the-source-value", format!("map_value of `{}` : {rt} for the call `{}` returns {:?}", sv, tc.text(), got.map(|x| x.to_string()))).with(detail));
                }
                ctx.label("map_value:checked");
            }
        }
    }
    // one-to-one: distinct markers denote distinct sites, every reachable site has a marker (bipartite matching)
    let n_sites = reachable_sites.len();
    let mut site_of: Vec<Option<usize>> = vec![None; n_sites]; // site -> marker
    fn augment(m: usize, cands: &[Vec<usize>], site_of: &mut Vec<Option<usize>>, seen: &mut Vec<bool>) -> bool {
        for &s in &cands[m] {
            if seen[s] {
                continue;
            }
            seen[s] = true;
            if site_of[s].is_none() || augment(site_of[s].unwrap(), cands, site_of, seen) {
                site_of[s] = Some(m);
                return true;
            }
        }
        false
    }
    for m in 0..markers.len() {
        let mut seen = vec![false; n_sites];
        if !augment(m, &cands, &mut site_of, &mut seen) {
            let tc = symbols.get(&markers[m]).unwrap();
            return Err(Failure::new(
                "c14:more-markers-than-call-sites",
                format!("marker {} (`{}`) cannot be assigned a call site of its own: two markers denote the same site\n--- program ---\n{}", markers[m], tc.text(), truncate(&text, 2500)),
            )
            .with(detail));
        }
    }
    if let Some(s) = site_of.iter().position(|x| x.is_none()) {
        let st = reachable_sites[s];
        return Err(Failure::new(
            "c14:call-site-without-own-marker",
            format!("the reachable call site `{}` ({:?}) has no marker of its own in the debug build ({} markers for {} sites)\n--- program ---\n{}", truncate(&text[st.start..st.end], 200), st.kind, markers.len(), n_sites, truncate(&text, 2500)),
        )
        .with(detail));
    }
    let in_fn = reachable_sites.iter().any(|s| s.in_function.is_some());
    if reachable_sites.len() >= 2 && in_fn {
        ctx.nontrivial(digest(&[text.as_bytes()]));
    }
    if in_fn {
        ctx.label("site-inside-function");
    }
    // where the sites of this case are (classes of the property's quantifier)
    {
        let mut fold_fns: HashSet<String> = HashSet::new();
        let mut loop_fns: HashSet<String> = HashSet::new();
        let mut calls: std::collections::HashMap<String, u32> = std::collections::HashMap::new();
        walk_program(&g.prog, &mut |e| {
            if let Expr::Call(name, _) = e {
                match name {
                    CallName::Fold(f, _) => {
                        fold_fns.insert(f.clone());
                    }
                    CallName::ForWhile(f) => {
                        loop_fns.insert(f.clone());
                    }
                    CallName::Fn(f) => *calls.entry(f.clone()).or_default() += 1,
                    _ => {}
                }
            }
        });
        let mut kinds: HashSet<String> = HashSet::new();
        let (mut in_fold, mut in_loop, mut several, mut multi_line) = (false, false, false, false);
        for st in &reachable_sites {
            kinds.insert(format!("site-kind:{:?}", st.kind));
            if let Some(f) = &st.in_function {
                in_fold |= fold_fns.contains(f);
                in_loop |= loop_fns.contains(f);
                several |= calls.get(f).copied().unwrap_or(0) >= 2;
            }
            multi_line |= text[st.start..st.end].contains('\n');
        }
        for k in kinds {
            ctx.label(&k);
        }
        for (flag, name) in [(in_fold, "site-inside-fold-body"), (in_loop, "site-inside-loop-body"), (several, "site-in-function-called-several-times"), (multi_line, "site-spans-several-lines")] {
            if flag {
                ctx.label(name);
            }
        }
    }
    ctx.label_n("markers", markers.len() as u64);
    ctx.sample(text.len() as u64, || json!({"style": style.describe(), "markers": markers.len(), "tracked_sites": reachable_sites.len(), "program": truncate(&text, 1000)}));
    Ok(())
}

/// Programs with hundreds of tracked call sites: every site must have a marker of its own.
fn e_many_sites(i: u64, ctx: &mut Ctx) -> Result<(), Failure> {
    let n = [2usize, 17, 255, 256, 257, 300, 513, 700][i as usize % 8];
    let in_function = i >= 8;
    let mut body = String::new();
    for k in 0..n {
        // distinct texts, several kinds of tracked calls
        match k % 3 {
            0 => body.push_str(&format!("    assert!(jet::eq_32({k}, {k}));\n")),
            1 => body.push_str(&format!("    let v{k}: u32 = dbg!({k});\n")),
            _ => body.push_str(&format!("    let w{k}: u32 = unwrap(Some({k}));\n")),
        }
    }
    let text = if in_function { format!("fn many() {{\n{body}}}\n\nfn main() {{\n    many();\n    many();\n}}\n") } else { format!("fn main() {{\n{body}}}\n") };
    let c = compile(&text, simfony::Arguments::default(), true, "c14")?;
    let fail_cmr = Cmr::fail(FailEntropy::ZERO);
    let markers: Vec<Cmr> = catch(|| {
        let node = c.program.commit();
        let mut out: HashSet<Cmr> = HashSet::new();
        for item in node.as_ref().post_order_iter::<InternalSharing>() {
            if let Inner::AssertL(_, cmr) = item.node.inner() {
                if *cmr != fail_cmr {
                    out.insert(*cmr);
                }
            }
        }
        out.into_iter().collect()
    })
    .map_err(|p| Failure::new(format!("panic:{}", panic_site(&p)), format!("commit() of the debug build panicked: {p}")))?;
    // tracked sites: every assert! and its eq_32 jet, every dbg!, every unwrap
    let expected = (0..n).map(|k| if k % 3 == 0 { 2 } else { 1 }).sum::<usize>();
    ctx.evals(1);
    let symbols = c.program.debug_symbols();
    let mut texts: HashSet<String> = HashSet::new();
    for m in &markers {
        match symbols.get(m) {
            Some(tc) => {
                texts.insert(strip_ws(tc.text()));
            }
            None => return Err(Failure::new("c14:marker-without-debug-symbol", format!("marker {m} is unknown to debug_symbols() in a program with {expected} tracked call sites"))),
        }
    }
    if markers.len() != expected || texts.len() != expected {
        return Err(Failure::new(
            "c14:call-site-without-own-marker",
            format!("a program with {expected} tracked call sites (all with distinct texts) has {} distinct markers resolving to {} distinct texts", markers.len(), texts.len()),
        )
        .with(json!({"sites": expected, "markers": markers.len(), "program": truncate(&text, 600)})));
    }
    // and it still runs
    let out = pipe::satisfy_and_run(&c.program, &c.info, simfony::WitnessValues::default(), None, &pipe::dummy_env());
    let v = judge(&out, "c14", &truncate(&text, 400), &json!({}), true)?;
    if v != Verdict::Success {
        return Err(Failure::new("c14:debug-build-fails", format!("the debug build of a program of {n} succeeding statements fails: {}", out.brief())));
    }
    ctx.nontrivial(digest(&[text.as_bytes()]));
    ctx.label("many-sites");
    ctx.sample(n as u64, || json!({"tracked_sites": expected, "in_function_called_twice": in_function}));
    Ok(())
}

pub fn streams() -> Vec<Stream> {
    vec![Stream { name: "many-sites", kind: Kind::Enum { count: |_| 16, complete: |_| true, f: e_many_sites }, isolate: false }, Stream { name: "markers", kind: Kind::Tape { cases: |t: Tier| t.pick(12_000, 150_000), max_len: 600, f: s_markers }, isolate: false }]
}

pub fn def() -> PropertyDef {
    PropertyDef {
        id: "C14",
        rule: "stream many-sites: programs with 2 ... 700 statements (assert! + jet, dbg!, unwrap; in main or in a function called twice), i.e. up to 933 tracked call sites with pairwise distinct texts: the number of distinct markers and of distinct marker texts must equal the number of sites. stream markers: generated programs (general and small family: call sites in main, in helper functions called 0 / 1 / several times, inside fold and loop bodies) rendered with varied layout (multi-line calls, one-line programs, tabs, CRLF, comments inside calls). Oracles: (a) for every witness assignment of the case the verdict with debug symbols equals the verdict without and the reference interpreter's; (b) markers = hidden CMRs of assertl nodes of the debug build's commit() other than the fail CMR of unwrap*: each is a key of debug_symbols(), its text equals modulo whitespace the source text of a tracked call site recorded by the renderer with byte offsets (for dbg! also the argument text), its kind is that site's kind, and per distinct call text the number of distinct markers equals the number of tracked sites reachable from main (so distinct sites have distinct markers and every reachable site has one); (c) for dbg! / unwrap_left / unwrap_right markers, map_value applied to the structural form of a generated value of the recorded type returns that value. evaluations = executions + markers checked. Non-trivial = >= 2 tracked call sites, at least one inside a function; distinct by digest.",
        assumptions: &["simplicity-lang 0.4.0 keeps its execution tracker private, so the value that arrives at a marker at run time is not observed; dbg!'s transparency is covered by (a)"],
        streams,
        health: &[("markers", "site-inside-function", 100), ("markers", "map_value:checked", 100), ("markers", "site-inside-fold-body", 25), ("markers", "site-inside-loop-body", 25), ("markers", "site-in-function-called-several-times", 20), ("markers", "site-spans-several-lines", 200)],
    }
}
