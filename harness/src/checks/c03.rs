//! C03 - accepted programs always compile to well-typed 1 -> 1 Simplicity.

use std::collections::HashMap;

use serde_json::json;
use simfony::{Arguments, Value};

use crate::checks::c06::guard;
use crate::checks::common::*;
use crate::conv;
use crate::pipe;
use crate::run::{catch, panic_site, Ctx, Failure, Kind, PropertyDef, Stream, Tier};
use crate::seeds;
use crate::tape::{digest, Tape};
use crate::textmut;
use crate::valgen;

/// Core oracle: if the front end accepts `text`, code generation must be total on it.
pub fn accepted_must_compile(t: &mut Tape, text: &str, ctx: &mut Ctx, origin: &str, in_family: bool) -> Result<bool, Failure> {
    if let Some(g) = guard(text) {
        ctx.exclude(g);
        return Ok(false);
    }
    ctx.evals(1);
    let tmpl = match pipe::new_template(text) {
        Ok(Ok(t)) => t,
        Ok(Err(_)) => {
            ctx.label("rejected");
            return Ok(false);
        }
        Err(_) => {
            ctx.exclude("panic in TemplateProgram::new (reported by C06)");
            return Ok(false);
        }
    };
    ctx.label("accepted");
    ctx.label(&format!("accepted:{origin}"));
    let args: HashMap<simfony::str::WitnessName, Value> = catch(|| {
        let mut m = HashMap::new();
        let mut items: Vec<_> = tmpl.parameters().iter().collect();
        items.sort_by(|a, b| a.0.as_inner().cmp(b.0.as_inner()));
        for (n, ty) in items {
            let mty = conv::from_resolved(ty);
            let v = valgen::gen_val(t, &mty);
            m.insert(n.clone(), conv::to_value(&v, &mty));
        }
        m
    })
    .map_err(|p| Failure::new(format!("panic:{}", panic_site(&p)), format!("parameters() panicked: {p}")))?;
    for debug in [false, true] {
        ctx.evals(1);
        let detail = json!({"program": text, "debug": debug, "origin": origin});
        let c = match pipe::instantiate(&tmpl, Arguments::from(args.clone()), debug) {
            Ok(Ok(c)) => c,
            Ok(Err(e)) => {
                let sig = if e.contains("Failed to compile to Simplicity") { "c03:cannot-compile" } else { "c03:instantiate-err" };
                return Err(Failure::new(sig, format!("the front end accepted this text but instantiate(debug={debug}) failed: {}\n--- program ({origin}) ---\n{}", pipe::last_line(&e), truncate(text, 2500))).with(detail));
            }
            Err(p) => return Err(Failure::new(format!("panic:{}", panic_site(&p)), format!("instantiate panicked: {p}\n{}", truncate(text, 2500))).with(detail)),
        };
        match pipe::commit(&c) {
            Ok(i) if i.unit_to_unit => {}
            Ok(_) => return Err(Failure::new("c03:commit-not-1-to-1", format!("commit() is not 1 -> 1\n{}", truncate(text, 2500))).with(detail)),
            Err(p) => return Err(Failure::new(format!("panic:{}", panic_site(&p)), format!("commit() panicked: {p}\n{}", truncate(text, 2500))).with(detail)),
        }
    }
    if !in_family {
        ctx.nontrivial(digest(&[text.as_bytes()]));
    }
    ctx.sample(text.len() as u64, || json!({"origin": origin, "program": truncate(text, 1200)}));
    Ok(true)
}

fn pool() -> Vec<&'static str> {
    let mut v: Vec<&'static str> = seeds::examples().iter().map(|e| e.program.as_str()).collect();
    v.extend(crate::checks::genpool::programs().iter().map(|s| s.as_str()));
    v
}

fn s_mutants(t: &mut Tape, ctx: &mut Ctx) -> Result<(), Failure> {
    let pool = pool();
    let a = pool[t.index(pool.len())];
    let b = pool[t.index(pool.len())];
    let (m, _) = textmut::mutate(t, a, b);
    let in_family = pool.contains(&m.as_str());
    accepted_must_compile(t, &m, ctx, "token-mutant", in_family).map(|_| ())
}

/// Display output of parsed programs (printer output is a text users feed back).
fn s_printed(t: &mut Tape, ctx: &mut Ctx) -> Result<(), Failure> {
    use simfony::parse::ParseFromStr;
    let pool = pool();
    let a = pool[t.index(pool.len())];
    let b = pool[t.index(pool.len())];
    let m = if t.chance(1, 3) { a.to_string() } else { textmut::mutate(t, a, b).0 };
    if guard(&m).is_some() {
        ctx.exclude("guard");
        return Ok(());
    }
    let printed = match catch(|| simfony::parse::Program::parse_from_str(&m).map(|p| p.to_string())) {
        Ok(Ok(s)) => s,
        _ => {
            ctx.label("unparseable");
            return Ok(());
        }
    };
    accepted_must_compile(t, &printed, ctx, "printer-output", false).map(|_| ())
}

fn s_fuzztext(t: &mut Tape, ctx: &mut Ctx) -> Result<(), Failure> {
    let s = crate::fuzzglue::text_of_tape(t);
    accepted_must_compile(t, &s, ctx, "fuzztext", false).map(|_| ())
}

pub fn streams() -> Vec<Stream> {
    let mut v = vec![
        Stream { name: "fuzztext", kind: Kind::Tape { cases: |_| 0, max_len: 4096, f: s_fuzztext }, isolate: false },
        Stream { name: "mutants", kind: Kind::Tape { cases: |t: Tier| t.pick(150_000, 3_000_000), max_len: 120, f: s_mutants }, isolate: false },
        Stream { name: "printed", kind: Kind::Tape { cases: |t: Tier| t.pick(30_000, 600_000), max_len: 120, f: s_printed }, isolate: false },
    ];
    v.extend(crate::checks::nearmiss_streams::c03());
    v
}

pub fn def() -> PropertyDef {
    PropertyDef {
        id: "C03",
        rule: "texts = token mutants of shipped examples and generated programs, Display output of parsed programs, and (stream nearmiss) every single typed edit of generated well-typed programs, whatever the independent checker thinks of it. Oracle: TemplateProgram::new(t) is Ok => instantiate(arguments shaped after parameters(), debug off and on) is Ok (never `Failed to compile to Simplicity`), nothing panics, commit() is 1 -> 1. evaluations = acceptance attempts + instantiations. Non-trivial = accepted text that is not a member of the seed pools / the by-construction family (accepted mutants, accepted edits, printer output); distinct by digest.",
        assumptions: &["texts outside the resource guards of DESIGN section 3 are excluded and counted"],
        streams,
        health: &[("mutants", "accepted", 30)],
    }
}
