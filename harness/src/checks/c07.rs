//! C07 - types, values and casts follow the documented structural layout.

use std::collections::HashMap;

use serde_json::json;
use simfony::simplicity::types::{CompleteBound, Final};
use simfony::types::StructuralType;
use simfony::value::StructuralValue;
use simfony::Value;

use crate::checks::common::*;
use crate::conv;
use crate::eval;
use crate::gen::{cast_partner, Gen, GenCfg, Generated};
use crate::layout::{self, Shape};
use crate::model::*;
use crate::pipe;
use crate::render::{self, Style};
use crate::run::{catch, panic_site, Ctx, Failure, Kind, PropertyDef, Stream, Tier};
use crate::tape::{digest, Tape};
use crate::valgen::{self, TyCfg};

fn shape_of_final(f: &Final) -> Shape {
    match f.bound() {
        CompleteBound::Unit => Shape::Unit,
        CompleteBound::Sum(a, b) => Shape::sum(shape_of_final(a), shape_of_final(b)),
        CompleteBound::Product(a, b) => Shape::prod(shape_of_final(a), shape_of_final(b)),
    }
}

fn pfail(what: &str, p: &str, input: &str) -> Failure {
    Failure::new(format!("panic:{}", panic_site(p)), format!("{what} panicked: {p}\n{}", truncate(input, 1500)))
}

/// Layout oracles for one (type, value).
pub fn check_layout(ty: &Ty, vals: &[Val], ctx: &mut Ctx) -> Result<(), Failure> {
    let rty = conv::to_resolved(ty);
    ctx.evals(1);
    let st = catch(|| StructuralType::from(&rty)).map_err(|p| pfail("StructuralType::from", &p, &ty.to_string()))?;
    let got = shape_of_final(st.as_ref());
    let want = layout::shape(ty);
    if got != want {
        return Err(Failure::new("c07:type-layout-differs", format!("the Simplicity type of `{ty}` is {} but the documented layout gives another tree", st)).with(json!({"type": ty.to_string(), "structural": st.to_string()})));
    }
    for v in vals {
        ctx.evals(1);
        let sv = conv::to_value(v, ty);
        let s = catch(|| StructuralValue::from(&sv)).map_err(|p| pfail("StructuralValue::from", &p, &render::val_text(v, ty)))?;
        let padded: Vec<bool> = s.as_ref().iter_padded().collect();
        let compact: Vec<bool> = s.as_ref().iter_compact().collect();
        let wp = layout::val_bits_padded(v, ty);
        let wc = layout::val_bits_compact(v, ty);
        let bits = |b: &[bool]| b.iter().map(|x| if *x { '1' } else { '0' }).collect::<String>();
        if padded != wp || compact != wc {
            return Err(Failure::new(
                "c07:value-bits-differ",
                format!("value `{}` : {ty}\n  library padded  {}\n  documented      {}\n  library compact {}\n  documented      {}", render::val_text(v, ty), bits(&padded), bits(&wp), bits(&compact), bits(&wc)),
            )
            .with(json!({"type": ty.to_string(), "value": render::val_text(v, ty)})));
        }
        match catch(|| Value::reconstruct(&s, &rty)).map_err(|p| pfail("Value::reconstruct", &p, &render::val_text(v, ty)))? {
            Some(b) if b == sv => {}
            other => {
                return Err(Failure::new("c07:reconstruct-differs", format!("reconstructing `{}` : {ty} from its structural form gives {:?}", render::val_text(v, ty), other.map(|x| x.to_string()))).with(json!({"type": ty.to_string(), "value": render::val_text(v, ty)})))
            }
        }
        // and the reference decoder agrees with itself
        if layout::unbits(ty, &wp).as_ref() != Some(v) {
            return Err(Failure::internal(format!("layout reference does not round-trip {} : {ty}", render::val_text(v, ty))));
        }
    }
    Ok(())
}

fn vals_for(t: &mut Tape, ty: &Ty, cap: usize, n: usize) -> (Vec<Val>, bool) {
    match valgen::all_vals(ty, cap) {
        Some(v) => (v, true),
        None => ((0..n).map(|_| valgen::gen_val(t, ty)).collect(), false),
    }
}

// ------------------------------------------------------------------ universe enumeration

fn base_types() -> Vec<Ty> {
    vec![Ty::unit(), Ty::Bool, Ty::UInt(1), Ty::UInt(2), Ty::UInt(4), Ty::UInt(8)]
}

/// All types of depth <= 1 over the base types (the complete quick universe).
fn universe1() -> &'static Vec<Ty> {
    static U: std::sync::OnceLock<Vec<Ty>> = std::sync::OnceLock::new();
    U.get_or_init(|| {
        let b = base_types();
        let mut out = b.clone();
        for x in &b {
            out.push(Ty::option(x.clone()));
            for y in &b {
                out.push(Ty::either(x.clone(), y.clone()));
            }
            for n in 0..=17 {
                out.push(Ty::array(x.clone(), n));
            }
            for k in 1..=6 {
                out.push(Ty::list(x.clone(), 1 << k));
            }
            out.push(Ty::Tuple(vec![x.clone()]));
            for y in &b {
                out.push(Ty::Tuple(vec![x.clone(), y.clone()]));
                for z in &b {
                    out.push(Ty::Tuple(vec![x.clone(), y.clone(), z.clone()]));
                }
            }
        }
        // width-4 tuples over a smaller base
        let sb = [Ty::unit(), Ty::Bool, Ty::UInt(2), Ty::UInt(8)];
        for a in &sb {
            for b2 in &sb {
                for c in &sb {
                    for d in &sb {
                        out.push(Ty::Tuple(vec![a.clone(), b2.clone(), c.clone(), d.clone()]));
                    }
                }
            }
        }
        out
    })
}

fn e_universe1(i: u64, ctx: &mut Ctx) -> Result<(), Failure> {
    let ty = &universe1()[i as usize];
    let mut tape = Tape::new((0..256).map(|k| crate::tape::splitmix(i * 7919 + k) as u32).collect());
    let (vals, all) = vals_for(&mut tape, ty, 256, 64);
    if all {
        ctx.label("values:all");
    }
    check_layout(ty, &vals, ctx)?;
    if ty.size() >= 2 {
        ctx.nontrivial(digest(&[ty.to_string().as_bytes()]));
    }
    ctx.sample(ty.size() as u64, || json!({"type": ty.to_string(), "values": vals.len(), "all_values": all}));
    Ok(())
}

/// depth-2 universe: constructors applied to depth-1 types (enumerated by index, thorough completes a stated prefix)
fn universe2_at(i: u64) -> Ty {
    let u1 = universe1();
    let n = u1.len() as u64;
    let inner = u1[(i % n) as usize].clone();
    let k = i / n;
    match k % 12 {
        0 => Ty::option(inner),
        1 => Ty::either(inner, Ty::UInt(1)),
        2 => Ty::either(Ty::unit(), inner),
        3 => Ty::array(inner, 2),
        4 => Ty::array(inner, 3),
        5 => Ty::array(inner, 5),
        6 => Ty::list(inner, 2),
        7 => Ty::list(inner, 4),
        8 => Ty::list(inner, 8),
        9 => Ty::Tuple(vec![inner, Ty::Bool]),
        10 => Ty::Tuple(vec![Ty::UInt(2), inner.clone(), inner]),
        _ => Ty::Tuple(vec![inner]),
    }
}

fn e_universe2(i: u64, ctx: &mut Ctx) -> Result<(), Failure> {
    let ty = universe2_at(i);
    if layout::shape(&ty).width() > 4096 {
        ctx.exclude("wider-than-4096-bits");
        return Ok(());
    }
    let mut tape = Tape::new((0..512).map(|k| crate::tape::splitmix(i * 104729 + k) as u32).collect());
    let (vals, all) = vals_for(&mut tape, &ty, 256, 16);
    if all {
        ctx.label("values:all");
    }
    check_layout(&ty, &vals, ctx)?;
    ctx.nontrivial(digest(&[ty.to_string().as_bytes()]));
    ctx.sample(ty.size() as u64, || json!({"type": ty.to_string(), "values": vals.len(), "all_values": all}));
    Ok(())
}

// ------------------------------------------------------------------ sampled deep types

fn s_sampled(t: &mut Tape, ctx: &mut Ctx) -> Result<(), Failure> {
    let ty = match t.weighted(&[5, 2, 2]) {
        0 => valgen::gen_ty(t, &TyCfg { max_depth: 3, max_tuple: 5, max_array: 9, max_list_log2: 5, allow_builtin_alias: true, big_ints: true }, 0),
        1 => {
            let el = [Ty::unit(), Ty::Bool, Ty::UInt(8), Ty::UInt(2)][t.index(4)].clone();
            // sizes above 256 leave the range of the integer trees (round 5: C07-r5-A clamps the split there)
            let n = [31usize, 32, 33, 63, 64, 65, 100, 17, 16, 15, 255, 256, 257, 300, 511, 513, 1000][t.index(17)];
            Ty::array(el, n)
        }
        _ => {
            let el = [Ty::unit(), Ty::Bool, Ty::UInt(8)][t.index(3)].clone();
            let k = t.range(1, 9);
            Ty::list(el, 1 << k)
        }
    };
    let vals: Vec<Val> = if let Ty::List(el, n) = &ty {
        // every length class: a tape-chosen length plus the block boundaries
        let mut lens = vec![t.index(*n), 0, n - 1, n / 2, (n / 2).saturating_sub(1), (n / 2 + 1).min(n - 1)];
        lens.dedup();
        lens.into_iter().map(|l| Val::List((0..l).map(|_| valgen::gen_val(t, el)).collect())).collect()
    } else {
        (0..4).map(|_| valgen::gen_val(t, &ty)).collect()
    };
    check_layout(&ty, &vals, ctx)?;
    ctx.nontrivial(digest(&[ty.to_string().as_bytes(), &vals.len().to_le_bytes()]));
    ctx.sample(ty.size() as u64, || json!({"type": ty.to_string(), "value": truncate(&render::val_text(&vals[0], &ty), 300)}));
    Ok(())
}

// ------------------------------------------------------------------ casts

/// A type with the same layout, obtained by applying the cast table at random positions.
fn cast_variant(t: &mut Tape, ty: &Ty, steps: usize) -> Ty {
    let mut cur = ty.resolve();
    for _ in 0..steps {
        cur = rewrite_somewhere(t, &cur, 0);
    }
    cur
}

fn rewrite_somewhere(t: &mut Tape, ty: &Ty, depth: usize) -> Ty {
    let descend = depth < 3 && t.chance(1, 2);
    if descend {
        match ty {
            Ty::Either(a, b) => {
                return if t.bool() { Ty::either(rewrite_somewhere(t, a, depth + 1), (**b).clone()) } else { Ty::either((**a).clone(), rewrite_somewhere(t, b, depth + 1)) };
            }
            Ty::Option(a) => return Ty::option(rewrite_somewhere(t, a, depth + 1)),
            Ty::Tuple(ts) if !ts.is_empty() => {
                let i = t.index(ts.len());
                let mut v = ts.clone();
                v[i] = rewrite_somewhere(t, &ts[i], depth + 1);
                return Ty::Tuple(v);
            }
            Ty::Array(a, n) if *n > 0 => return Ty::array(rewrite_somewhere(t, a, depth + 1), *n),
            Ty::List(a, n) => return Ty::list(rewrite_somewhere(t, a, depth + 1), *n),
            _ => {}
        }
    }
    cast_partner(t, ty).unwrap_or_else(|| ty.clone())
}

/// Program `let x: S = witness::X; let y: T = <S>::into(x); observe(y)`.
fn cast_program(t: &mut Tape, src: &Ty, dst: &Ty, v: &Val, perturb: bool) -> (Generated, String) {
    let mut g = Gen::new(t, GenCfg { max_holes: 200, ..GenCfg::general() });
    let mut stmts = vec![
        Stmt::Let(Pat::Id("x".into()), src.clone(), Expr::Witness("X".into())),
        Stmt::Let(Pat::Id("y".into()), dst.clone(), Expr::Call(CallName::Cast(src.clone()), vec![Expr::Var("x".into())])),
    ];
    g.observe(&Expr::Var("y".into()), dst, &mut stmts, 0);
    let prog = Program { items: vec![Item::Fn(FnDef { name: "main".into(), params: vec![], ret: None, body: Expr::Block(stmts, None) })] };
    let mut n_holes = 0;
    walk_program(&prog, &mut |e| {
        if let Expr::Hole(i) = e {
            n_holes = n_holes.max(*i + 1);
        }
    });
    let mut pv = vec![false; n_holes];
    if perturb && n_holes > 0 {
        let i = g.t.index(n_holes);
        pv[i] = true;
    }
    let wm: HashMap<String, Val> = [("X".to_string(), v.clone())].into_iter().collect();
    let (filled, verdict) = eval::fill_holes(&prog, &wm, &HashMap::new(), pv);
    let gen = Generated { prog: filled, witnesses: vec![("X".into(), v.clone(), src.clone())], params: vec![], labels: Default::default(), intended_verdict: verdict, n_holes, perturbed: perturb };
    let text = render::render(&gen.prog, &Style::canonical());
    (gen, text)
}

fn s_casts(t: &mut Tape, ctx: &mut Ctx) -> Result<(), Failure> {
    let src = valgen::gen_ty(t, &TyCfg { max_depth: 2, max_tuple: 4, max_array: 6, max_list_log2: 3, allow_builtin_alias: false, big_ints: true }, 0);
    let related = t.chance(2, 3);
    let dst = if related { let steps = 1 + t.index(3); cast_variant(t, &src, steps) } else { valgen::gen_ty(t, &TyCfg::SMALL, 0) };
    let castable = layout::shape(&src) == layout::shape(&dst);
    let v = valgen::gen_val(t, &src);
    ctx.evals(1);
    if !castable {
        // must be rejected
        let prog = format!("fn main() {{\n    let x: {src} = witness::X;\n    let y: {dst} = <{src}>::into(x);\n}}\n");
        match pipe::new_template(&prog) {
            Ok(Err(_)) => {
                ctx.label("cast:rejected-as-expected");
            }
            Ok(Ok(_)) => return Err(Failure::new("c07:cast-between-different-layouts-accepted", format!("`{src}` and `{dst}` have different layouts but the cast is accepted\n{prog}")).with(json!({"program": prog}))),
            Err(p) => return Err(pfail("TemplateProgram::new", &p, &prog)),
        }
        return Ok(());
    }
    ctx.label(if src.resolve() == dst.resolve() { "cast:identity" } else { "cast:castable" });
    let perturb = t.chance(1, 4);
    let (g, text) = cast_program(t, &src, &dst, &v, perturb);
    let n_holes = g.n_holes;
    let (n_ok, n_fail) = crate::checks::c01::behaviour(t, &g, &text, ctx, "c07", &[false])?;
    let _ = (n_ok, n_fail);
    if n_holes > 0 && src.resolve() != dst.resolve() {
        ctx.nontrivial(digest(&[src.to_string().as_bytes(), dst.to_string().as_bytes(), render::val_text(&v, &src).as_bytes()]));
    }
    ctx.sample(text.len() as u64, || json!({"source": src.to_string(), "target": dst.to_string(), "value": truncate(&render::val_text(&v, &src), 200), "program": truncate(&text, 800)}));
    Ok(())
}

/// Exhaustive pairs over small-layout types: acceptance of the cast iff equal layout.
fn small_types() -> &'static Vec<Ty> {
    static U: std::sync::OnceLock<Vec<Ty>> = std::sync::OnceLock::new();
    U.get_or_init(|| universe1().iter().filter(|t| layout::shape(t).width() <= 16 && t.size() <= 5).cloned().collect())
}

fn e_pairs(i: u64, ctx: &mut Ctx) -> Result<(), Failure> {
    let u = small_types();
    let n = u.len() as u64;
    let (src, dst) = (&u[(i / n) as usize], &u[(i % n) as usize]);
    let castable = layout::shape(src) == layout::shape(dst);
    ctx.evals(1);
    let prog = format!("fn main() {{\n    let x: {src} = witness::X;\n    let y: {dst} = <{src}>::into(x);\n}}\n");
    let acc = match pipe::new_template(&prog) {
        Ok(r) => r.is_ok(),
        Err(p) => return Err(pfail("TemplateProgram::new", &p, &prog)),
    };
    if acc != castable {
        let sig = if castable { "c07:cast-between-equal-layouts-rejected" } else { "c07:cast-between-different-layouts-accepted" };
        return Err(Failure::new(sig, format!("`{src}` -> `{dst}`: layouts equal = {castable}, accepted = {acc}\n{prog}")).with(json!({"program": prog})));
    }
    if castable && src != dst {
        ctx.label("pair:castable");
        ctx.nontrivial(digest(&[prog.as_bytes()]));
    }
    ctx.sample(prog.len() as u64, || json!({"source": src.to_string(), "target": dst.to_string(), "castable": castable}));
    Ok(())
}

pub fn streams() -> Vec<Stream> {
    vec![
        Stream { name: "universe1", kind: Kind::Enum { count: |_| universe1().len() as u64, complete: |_| true, f: e_universe1 }, isolate: false },
        Stream { name: "universe2", kind: Kind::Enum { count: |t: Tier| t.pick(6_000, universe1().len() as u64 * 12), complete: |t: Tier| t == Tier::Thorough, f: e_universe2 }, isolate: false },
        Stream { name: "sampled", kind: Kind::Tape { cases: |t: Tier| t.pick(30_000, 600_000), max_len: 1200, f: s_sampled }, isolate: false },
        Stream { name: "casts", kind: Kind::Tape { cases: |t: Tier| t.pick(8_000, 250_000), max_len: 300, f: s_casts }, isolate: false },
        Stream { name: "pairs", kind: Kind::Enum { count: |t: Tier| { let n = small_types().len() as u64; t.pick((n * n).min(60_000), n * n) }, complete: |t: Tier| { let n = small_types().len() as u64; t == Tier::Thorough || n * n <= 60_000 }, f: e_pairs }, isolate: false },
    ]
}

pub fn def() -> PropertyDef {
    PropertyDef {
        id: "C07",
        rule: "universe1 (complete): all types of depth <= 1 over {(), bool, u1, u2, u4, u8} with Option, Either, tuples of width 1-4, arrays of size 0-17, lists of bound 2-64, with all their values when there are <= 256, else 64 generated; universe2: 12 constructors applied to every universe1 type (quick: a stated prefix, thorough: complete); sampled: depth-3 types with builtin aliases, arrays of size 15..100, lists of bound up to 512 at the lengths 0, N/2-1, N/2, N/2+1, N-1 and a random one. Oracles per (type, value): the tree of StructuralType::from equals the documented layout (reference written from the book); padded and compact bits of StructuralValue::from equal the reference bits; Value::reconstruct returns the value. casts: (S, T) with T derived from S by 1-3 applications of the book's cast table at random positions (2/3) or unrelated (1/3): the cast program is accepted iff the layouts are equal, and when accepted the compiled program observes exactly the value the reference decodes from the unchanged bits (one constant wrong in 1/4 of the cases must make it fail); pairs: all ordered pairs of universe1 types with <= 16 bits (acceptance iff equal layout). evaluations = oracle comparisons. Non-trivial = composite type / castable pair with S != T; distinct by digest.",
        assumptions: &["the layout reference is written from book/src/type_casting.md and the property statement"],
        streams,
        health: &[("casts", "cast:castable", 300), ("casts", "cast:rejected-as-expected", 50)],
    }
}
