//! Streams built on single typed edits of generated programs (shared by C03, C04, C16, C20).

use crate::checks::common::*;
use crate::gen::{self, GenCfg, Generated};
use crate::model::Program;
use crate::nearmiss::{self, Kind as EditKind};
use crate::render::{self, Style};
use crate::run::{Ctx, Failure, Kind, Stream, Tier};
use crate::tape::Tape;

pub struct Edited {
    pub base: Generated,
    pub prog: Program,
    pub kind: EditKind,
    pub text: String,
    pub style: Style,
}

pub fn family_cfg() -> GenCfg {
    GenCfg { params: false, ..GenCfg::small() }
}

/// Generate a well-typed program and apply one edit.
pub fn edited(t: &mut Tape, ctx: &mut Ctx, styled: bool) -> Result<Option<Edited>, Failure> {
    // the edit's own choices come first on the tape, so that a long program does not starve them
    let mut et = Tape::new((0..12).map(|_| t.next()).collect());
    let style_seed = t.next() as u64;
    let g = gen::generate(t, family_cfg());
    let base_text = render::render(&g.prog, &Style::canonical());
    require_well_typed(&g, &base_text)?;
    let Some((prog, kind)) = nearmiss::edit(&mut et, &g.prog) else {
        ctx.exclude("no-edit-site");
        return Ok(None);
    };
    let style = if styled { Style::from_seed(style_seed) } else { Style::canonical() };
    let text = render::render(&prog, &style);
    ctx.label(&format!("edit:{}", kind.name()));
    Ok(Some(Edited { base: g, prog, kind, text, style }))
}

fn s_c03(t: &mut Tape, ctx: &mut Ctx) -> Result<(), Failure> {
    let Some(e) = edited(t, ctx, true)? else { return Ok(()) };
    crate::checks::c03::accepted_must_compile(t, &e.text, ctx, "near-miss-edit", false).map(|_| ())
}

pub fn c03() -> Vec<Stream> {
    vec![Stream { name: "nearmiss", kind: Kind::Tape { cases: |t: Tier| t.pick(60_000, 1_500_000), max_len: 320, f: s_c03 }, isolate: false }]
}
