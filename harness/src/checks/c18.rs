//! C18 - pruning for an environment never changes the verdict.

use serde_json::json;
use simfony::elements::{LockTime, Sequence};

use crate::checks::common::*;
use crate::gen::{self, GenCfg};
use crate::mb::*;
use crate::model::*;
use crate::pipe::{self, Env, Outcome};
use crate::render::{self, Style};
use crate::run::{catch, Ctx, Failure, Kind, PropertyDef, Stream, Tier};
use crate::tape::{digest, Tape};

fn envs() -> Vec<(String, Env)> {
    let mut v = vec![];
    let lock_times = [0u32, 1000, 499_999_999, 500_000_000, 1_734_967_835];
    let seqs: [(&str, Sequence); 4] = [("MAX", Sequence::MAX), ("ENABLE_LOCKTIME_NO_RBF", Sequence::ENABLE_LOCKTIME_NO_RBF), ("height1000", Sequence::from_height(1000)), ("ZERO", Sequence::ZERO)];
    for lt in lock_times {
        for (sn, s) in seqs {
            for fee in [false, true] {
                let l = LockTime::from_consensus(lt);
                v.push((format!("lock_time={lt} sequence={sn} fee={fee}"), simfony::dummy_env::dummy_with(l, s, fee)));
            }
        }
    }
    v
}

/// Statements that branch on / assert environment jets.
fn env_statements(t: &mut Tape) -> Vec<Stmt> {
    let mut out = vec![];
    let n = 1 + t.index(3);
    for _ in 0..n {
        let k = [0u128, 1, 999, 1000, 1001, 499_999_999, 500_000_000, 1_734_967_835, u32::MAX as u128][t.index(9)];
        let s = match t.index(9) {
            0 => Stmt::Expr(jet("check_lock_height", vec![int(k, 32)])),
            1 => Stmt::Expr(jet("check_lock_time", vec![int(k, 32)])),
            2 => Stmt::Expr(jet("check_lock_distance", vec![int(k % 65536, 16)])),
            3 => assert_(jet("tx_is_final", vec![])),
            4 => assert_(jet("le_32", vec![jet("tx_lock_height", vec![]), int(k, 32)])),
            5 => Stmt::Expr(match_bool(jet("lt_32", vec![jet("lock_time", vec![]), int(k, 32)]), block(vec![assert_(jet("eq_32", vec![jet("version", vec![]), int(2, 32)]))], None), block(vec![Stmt::Expr(jet("check_lock_time", vec![int(k, 32)]))], None))),
            6 => Stmt::Expr(match_bool(jet("eq_32", vec![jet("current_sequence", vec![]), int(u32::MAX as u128, 32)]), block(vec![], None), block(vec![assert_(jet("tx_is_final", vec![]))], None))),
            7 => Stmt::Expr(match_bool(Expr::Witness(format!("ENVW{}", out.len())), block(vec![Stmt::Expr(jet("check_lock_height", vec![int(k, 32)]))], None), block(vec![], None))),
            _ => Stmt::Expr(match_bool(jet("tx_is_final", vec![]), block(vec![], None), block(vec![Stmt::Expr(Expr::Call(CallName::Panic, vec![]))], None))),
        };
        out.push(s);
    }
    out
}

fn s_prune(t: &mut Tape, ctx: &mut Ctx) -> Result<(), Failure> {
    let mut g = gen::generate(t, GenCfg::small());
    // insert environment-dependent statements at the start of main
    let extra = env_statements(t);
    for it in g.prog.items.iter_mut() {
        if let Item::Fn(f) = it {
            if f.name == "main" {
                if let Expr::Block(stmts, _) = &mut f.body {
                    let mut all = extra.clone();
                    all.extend(stmts.drain(..));
                    *stmts = all;
                }
            }
        }
    }
    let mut n_envw = 0;
    walk_program(&g.prog, &mut |e| {
        if let Expr::Witness(n) = e {
            if n.starts_with("ENVW") {
                n_envw += 1;
            }
        }
    });
    let mut names = vec![];
    walk_program(&g.prog, &mut |e| {
        if let Expr::Witness(n) = e {
            if n.starts_with("ENVW") {
                names.push(n.clone());
            }
        }
    });
    for n in names {
        g.witnesses.push((n, Val::Bool(t.bool()), Ty::Bool));
    }
    let style = Style::from_seed(t.next() as u64);
    let text = render::render(&g.prog, &style);
    require_well_typed(&g, &text)?;
    let c = compile(&text, to_arguments(&g), t.bool(), "c18")?;
    let all_envs = envs();
    let (maps, _) = assignments(t, &g, 8, 2);
    let mut verdicts = vec![];
    let mut pruned_smaller = false;
    let mut has_case = false;
    for _ in 0..4 {
        let (ename, env) = &all_envs[t.index(all_envs.len())];
        for wm in maps.iter().take(3) {
            ctx.evals(1);
            let wj = wit_json(&g, wm);
            let detail = json!({"program": text, "witness": wj, "env": ename});
            // unpruned program under env
            let unpruned = pipe::satisfy_and_run(&c.program, &c.info, to_witness_values(&g, wm), None, env);
            let verdict = judge(&unpruned, "c18", &text, &wj, false)?;
            let n_unpruned = if let Outcome::Ran(r) = &unpruned { has_case |= r.n_case > 0; r.n_nodes } else { 0 };
            verdicts.push(verdict);
            // pruned for env
            let sat = catch(|| c.program.satisfy_with_env(to_witness_values(&g, wm), Some(env)));
            match (sat, verdict) {
                (Err(p), _) => return Err(Failure::new(format!("panic:{}", crate::run::panic_site(&p)), format!("satisfy_with_env panicked: {p}\n--- env {ename} ---\n{}\n{}", truncate(&text, 2500), wj)).with(detail)),
                (Ok(Err(_)), Verdict::Fails) => {
                    ctx.label("pruning:error-as-expected");
                }
                (Ok(Err(e)), Verdict::Success) => {
                    return Err(Failure::new("c18:pruning-fails-though-program-succeeds", format!("the unpruned program succeeds under the environment but satisfy_with_env returns an error: {e}\n--- env {ename} ---\n{}\n{}", truncate(&text, 2500), wj)).with(detail));
                }
                (Ok(Ok(_)), Verdict::Fails) => {
                    return Err(Failure::new("c18:pruning-succeeds-though-program-fails", format!("the unpruned program fails under the environment but satisfy_with_env returns a program\n--- env {ename} ---\n{}\n{}", truncate(&text, 2500), wj)).with(detail));
                }
                (Ok(Ok(s)), Verdict::Success) => {
                    let out = pipe::run_satisfied(c.info.cmr, c.info.unit_to_unit, &s, env);
                    let v = judge(&out, "c18:pruned", &text, &wj, false)?;
                    if v != Verdict::Success {
                        return Err(Failure::new("c18:pruned-program-fails-under-its-environment", format!("the pruned program does not succeed under the environment it was pruned for: {}\n--- env {ename} ---\n{}\n{}", out.brief(), truncate(&text, 2500), wj)).with(detail));
                    }
                    if let Outcome::Ran(r) = &out {
                        if r.n_nodes < n_unpruned {
                            pruned_smaller = true;
                        }
                    }
                    ctx.label("pruning:ok");
                }
            }
        }
    }
    let both = verdicts.contains(&Verdict::Success) && verdicts.contains(&Verdict::Fails);
    if has_case && (both || pruned_smaller) {
        ctx.nontrivial(digest(&[text.as_bytes()]));
    }
    if pruned_smaller {
        ctx.label("pruned-program-smaller");
    }
    if both {
        ctx.label("both-verdicts");
    }
    ctx.sample(text.len() as u64, || json!({"program": truncate(&text, 1200), "both_verdicts": both, "pruned_smaller": pruned_smaller}));
    let _ = n_envw;
    Ok(())
}

/// Shipped examples with their argument / witness files under all 40 environments.
fn e_examples(i: u64, ctx: &mut Ctx) -> Result<(), Failure> {
    let exs = crate::seeds::examples();
    let all_envs = envs();
    let ex = &exs[(i as usize) / all_envs.len() % exs.len()];
    let (ename, env) = &all_envs[(i as usize) % all_envs.len()];
    let args = match &ex.args_json {
        Some(a) => match catch(|| serde_json::from_str::<simfony::Arguments>(a)) {
            Ok(Ok(a)) => a,
            _ => return Err(Failure::internal(format!("{}.args unreadable", ex.name))),
        },
        None => simfony::Arguments::default(),
    };
    let c = compile(&ex.program, args, false, "c18")?;
    let mut maps: Vec<(String, simfony::WitnessValues)> = vec![("empty".into(), simfony::WitnessValues::default())];
    for (f, w) in &ex.wit_json {
        if let Ok(Ok(w)) = catch(|| serde_json::from_str::<simfony::WitnessValues>(w)) {
            maps.push((f.clone(), w));
        }
    }
    for (label, w) in maps {
        ctx.evals(1);
        let wj = json!(label);
        let detail = json!({"example": ex.name, "witness": label, "env": ename});
        let unpruned = pipe::satisfy_and_run(&c.program, &c.info, w.shallow_clone(), None, env);
        let verdict = judge(&unpruned, "c18", &ex.program, &wj, false)?;
        let sat = catch(|| c.program.satisfy_with_env(w, Some(env)));
        match (sat, verdict) {
            (Err(p), _) => return Err(Failure::new(format!("panic:{}", crate::run::panic_site(&p)), format!("satisfy_with_env panicked on example {}: {p}", ex.name)).with(detail)),
            (Ok(Err(_)), Verdict::Fails) => ctx.label("example:pruning-error-as-expected"),
            (Ok(Err(e)), Verdict::Success) => return Err(Failure::new("c18:pruning-fails-though-program-succeeds", format!("example {} ({label}, {ename}): unpruned succeeds, satisfy_with_env fails: {e}", ex.name)).with(detail)),
            (Ok(Ok(_)), Verdict::Fails) => return Err(Failure::new("c18:pruning-succeeds-though-program-fails", format!("example {} ({label}, {ename}): unpruned fails, satisfy_with_env returns a program", ex.name)).with(detail)),
            (Ok(Ok(s)), Verdict::Success) => {
                let out = pipe::run_satisfied(c.info.cmr, c.info.unit_to_unit, &s, env);
                let v = judge(&out, "c18:pruned", &ex.program, &wj, false)?;
                if v != Verdict::Success {
                    return Err(Failure::new("c18:pruned-program-fails-under-its-environment", format!("example {} ({label}, {ename}): {}", ex.name, out.brief())).with(detail));
                }
                ctx.label("example:pruning-ok");
                ctx.nontrivial(digest(&[ex.name.as_bytes(), label.as_bytes(), ename.as_bytes()]));
            }
        }
    }
    ctx.sample(i, || json!({"example": ex.name, "env": ename}));
    Ok(())
}

pub fn streams() -> Vec<Stream> {
    vec![Stream { name: "examples", kind: Kind::Enum { count: |_| (crate::seeds::examples().len() * 40) as u64, complete: |_| true, f: e_examples }, isolate: false }, Stream { name: "prune", kind: Kind::Tape { cases: |t: Tier| t.pick(12_000, 300_000), max_len: 420, f: s_prune }, isolate: false }]
}

pub fn def() -> PropertyDef {
    PropertyDef {
        id: "C18",
        rule: "stream examples (complete): the 20 shipped examples with their argument / witness files and the empty map under all 40 environments. stream prune: generated programs with 1-3 extra statements that assert or branch on environment jets (check_lock_height / _time / _distance, tx_is_final, tx_lock_height, lock_time, version, current_sequence, witness-controlled branches) x up to 3 witness assignments x 4 of the 40 environments dummy_with(lock_time in {0, 1000, 499999999, 500000000, 1734967835}, sequence in {MAX, ENABLE_LOCKTIME_NO_RBF, from_height(1000), ZERO}, fee in {false,true}). Oracle (differential, no reference for the environment jets needed): verdict of satisfy(w) executed under env; satisfy_with_env(w, Some(env)) is Err iff that verdict is failure; when Ok the pruned program has the commit CMR, its encoding decodes to the same CMR, its witness nodes are well-typed and it succeeds under env; nothing panics. evaluations = (program, witness, environment) triples. Non-trivial = the unpruned program has a case node and (the triples of the case give both verdicts or the pruned program is strictly smaller); distinct by digest.",
        assumptions: &["the Bit Machine's behaviour on the unpruned program is the reference for 'fails under env'"],
        streams,
        health: &[("prune", "pruning:ok", 300), ("prune", "pruning:error-as-expected", 100)],
    }
}
