//! C18 - pruning for an environment never changes the verdict.

use serde_json::json;
use simfony::elements::{LockTime, Sequence};

use crate::checks::common::*;
use crate::gen::{self, GenCfg};
use crate::mb::*;
use crate::model::*;
use crate::pipe::{self, Env, Outcome};
use crate::render::{self, Style};
use crate::run::{catch, Ctx, Failure, Kind, PropertyDef, Stream, Tier};
use crate::tape::{digest, Tape};

fn envs() -> Vec<(String, Env)> {
    let mut v = vec![];
    let lock_times = [0u32, 1000, 499_999_999, 500_000_000, 1_734_967_835];
    let seqs: [(&str, Sequence); 4] = [("MAX", Sequence::MAX), ("ENABLE_LOCKTIME_NO_RBF", Sequence::ENABLE_LOCKTIME_NO_RBF), ("height1000", Sequence::from_height(1000)), ("ZERO", Sequence::ZERO)];
    for lt in lock_times {
        for (sn, s) in seqs {
            for fee in [false, true] {
                let l = LockTime::from_consensus(lt);
                v.push((format!("lock_time={lt} sequence={sn} fee={fee}"), simfony::dummy_env::dummy_with(l, s, fee)));
            }
        }
    }
    v
}

/// Statements that branch on / assert environment jets.
fn env_statements(t: &mut Tape) -> Vec<Stmt> {
    let mut out = vec![];
    let n = 1 + t.index(3);
    for _ in 0..n {
        let k = [0u128, 1, 999, 1000, 1001, 499_999_999, 500_000_000, 1_734_967_835, u32::MAX as u128][t.index(9)];
        let s = match t.index(9) {
            0 => Stmt::Expr(jet("check_lock_height", vec![int(k, 32)])),
            1 => Stmt::Expr(jet("check_lock_time", vec![int(k, 32)])),
            2 => Stmt::Expr(jet("check_lock_distance", vec![int(k % 65536, 16)])),
            3 => assert_(jet("tx_is_final", vec![])),
            4 => assert_(jet("le_32", vec![jet("tx_lock_height", vec![]), int(k, 32)])),
            5 => Stmt::Expr(match_bool(jet("lt_32", vec![jet("lock_time", vec![]), int(k, 32)]), block(vec![assert_(jet("eq_32", vec![jet("version", vec![]), int(2, 32)]))], None), block(vec![Stmt::Expr(jet("check_lock_time", vec![int(k, 32)]))], None))),
            6 => Stmt::Expr(match_bool(jet("eq_32", vec![jet("current_sequence", vec![]), int(u32::MAX as u128, 32)]), block(vec![], None), block(vec![assert_(jet("tx_is_final", vec![]))], None))),
            7 => Stmt::Expr(match_bool(Expr::Witness(format!("ENVW{}", out.len())), block(vec![Stmt::Expr(jet("check_lock_height", vec![int(k, 32)]))], None), block(vec![], None))),
            _ => Stmt::Expr(match_bool(jet("tx_is_final", vec![]), block(vec![], None), block(vec![Stmt::Expr(Expr::Call(CallName::Panic, vec![]))], None))),
        };
        out.push(s);
    }
    out
}

fn s_prune(t: &mut Tape, ctx: &mut Ctx) -> Result<(), Failure> {
    let mut g = gen::generate(t, GenCfg::small());
    // insert environment-dependent statements at the start of main
    let extra = env_statements(t);
    for it in g.prog.items.iter_mut() {
        if let Item::Fn(f) = it {
            if f.name == "main" {
                if let Expr::Block(stmts, _) = &mut f.body {
                    let mut all = extra.clone();
                    all.extend(stmts.drain(..));
                    *stmts = all;
                }
            }
        }
    }
    let mut n_envw = 0;
    walk_program(&g.prog, &mut |e| {
        if let Expr::Witness(n) = e {
            if n.starts_with("ENVW") {
                n_envw += 1;
            }
        }
    });
    let mut names = vec![];
    walk_program(&g.prog, &mut |e| {
        if let Expr::Witness(n) = e {
            if n.starts_with("ENVW") {
                names.push(n.clone());
            }
        }
    });
    for n in names {
        g.witnesses.push((n, Val::Bool(t.bool()), Ty::Bool));
    }
    let _ = n_envw;
    prune_compare(t, ctx, &g)
}

fn dependency_failure(ename: &str, text: &str, wj: &serde_json::Value, detail: serde_json::Value) -> Failure {
    Failure::new(
        "c18:dependency-value-prune-corrupts-witness",
        format!("the unpruned program succeeds under the environment, but RedeemNode::prune of simplicity-lang 0.4.0 (called on it directly) returns a program that does not run under that environment / whose witness values are not restrictions of the original ones: its Value::prune reuses the bit before a kept part as a 0 tag without clearing it\n--- env {ename} ---\n{}\n{}", truncate(text, 2500), wj),
    )
    .with(detail)
}

/// The comparison itself: (program, witness, environment) triples, unpruned verdict against
/// `satisfy_with_env`.
fn prune_compare(t: &mut Tape, ctx: &mut Ctx, g: &gen::Generated) -> Result<(), Failure> {
    let style = Style::from_seed(t.next() as u64);
    let text = render::render(&g.prog, &style);
    require_well_typed(g, &text)?;
    let c = compile(&text, to_arguments(g), t.bool(), "c18")?;
    let all_envs = envs();
    let (maps, _) = assignments(t, g, 8, 2);
    let mut verdicts = vec![];
    let mut pruned_smaller = false;
    let mut has_case = false;
    for _ in 0..4 {
        let (ename, env) = &all_envs[t.index(all_envs.len())];
        for wm in maps.iter().take(3) {
            ctx.evals(1);
            let wj = wit_json(g, wm);
            let detail = json!({"program": text, "witness": wj, "env": ename});
            // unpruned program under env
            let unpruned = pipe::satisfy_and_run(&c.program, &c.info, to_witness_values(g, wm), None, env);
            let verdict = judge(&unpruned, "c18", &text, &wj, false)?;
            let n_unpruned = if let Outcome::Ran(r) = &unpruned { has_case |= r.n_case > 0; r.n_nodes } else { 0 };
            verdicts.push(verdict);
            // pruned for env
            let sat = catch(|| c.program.satisfy_with_env(to_witness_values(g, wm), Some(env)));
            match (sat, verdict) {
                (Err(p), _) => return Err(Failure::new(format!("panic:{}", crate::run::panic_site(&p)), format!("satisfy_with_env panicked: {p}\n--- env {ename} ---\n{}\n{}", truncate(&text, 2500), wj)).with(detail)),
                (Ok(Err(_)), Verdict::Fails) => {
                    ctx.label("pruning:error-as-expected");
                }
                (Ok(Err(_)), Verdict::Success) if pipe::dependency_prune_corrupts_witness(&c.program, to_witness_values(g, wm), env) => {
                    return Err(dependency_failure(ename, &text, &wj, detail));
                }
                (Ok(Err(e)), Verdict::Success) => {
                    return Err(Failure::new("c18:pruning-fails-though-program-succeeds", format!("the unpruned program succeeds under the environment but satisfy_with_env returns an error: {e}\n--- env {ename} ---\n{}\n{}", truncate(&text, 2500), wj)).with(detail));
                }
                (Ok(Ok(_)), Verdict::Fails) => {
                    return Err(Failure::new("c18:pruning-succeeds-though-program-fails", format!("the unpruned program fails under the environment but satisfy_with_env returns a program\n--- env {ename} ---\n{}\n{}", truncate(&text, 2500), wj)).with(detail));
                }
                (Ok(Ok(s)), Verdict::Success) => {
                    let out = pipe::run_satisfied(c.info.cmr, c.info.unit_to_unit, &s, env);
                    let v = match judge(&out, "c18:pruned", &text, &wj, false) {
                        Ok(v) => v,
                        Err(f) if f.signature.ends_with("mirror-assert-nodes-merged-by-sharing") => return Err(f),
                        Err(_) if pipe::dependency_prune_corrupts_witness(&c.program, to_witness_values(g, wm), env) => return Err(dependency_failure(ename, &text, &wj, detail)),
                        Err(f) => return Err(f),
                    };
                    if v != Verdict::Success {
                        if pipe::dependency_prune_corrupts_witness(&c.program, to_witness_values(g, wm), env) {
                            return Err(dependency_failure(ename, &text, &wj, detail));
                        }
                        return Err(Failure::new("c18:pruned-program-fails-under-its-environment", format!("the pruned program does not succeed under the environment it was pruned for: {}\n--- env {ename} ---\n{}\n{}", out.brief(), truncate(&text, 2500), wj)).with(detail));
                    }
                    if let Outcome::Ran(r) = &out {
                        if r.n_nodes < n_unpruned {
                            pruned_smaller = true;
                        }
                    }
                    ctx.label("pruning:ok");
                }
            }
        }
    }
    let both = verdicts.contains(&Verdict::Success) && verdicts.contains(&Verdict::Fails);
    if has_case && (both || pruned_smaller) {
        ctx.nontrivial(digest(&[text.as_bytes()]));
    }
    if pruned_smaller {
        ctx.label("pruned-program-smaller");
    }
    if both {
        ctx.label("both-verdicts");
    }
    ctx.sample(text.len() as u64, || json!({"program": truncate(&text, 1200), "both_verdicts": both, "pruned_smaller": pruned_smaller}));
    Ok(())
}


/// A type made mostly of sums, so that values have padding and unexecuted arms.
fn sum_ty(t: &mut Tape, depth: usize) -> Ty {
    let leaf = |t: &mut Tape| match t.weighted(&[3, 3, 2, 2]) {
        0 => Ty::UInt([1u16, 2, 4, 8, 16, 32, 64][t.index(7)]),
        1 => Ty::Bool,
        2 => Ty::unit(),
        _ => Ty::UInt([8u16, 16, 32, 64][t.index(4)]),
    };
    if depth >= 3 {
        return leaf(t);
    }
    match t.weighted(&[4, 3, 2, 3]) {
        0 => Ty::either(sum_ty(t, depth + 1), sum_ty(t, depth + 1)),
        1 => Ty::option(sum_ty(t, depth + 1)),
        2 => {
            let n = 2 + t.index(2);
            Ty::Tuple((0..n).map(|_| sum_ty(t, depth + 1)).collect())
        }
        _ => leaf(t),
    }
}

/// An expression of type unit that takes `e : ty` apart with matches and patterns only, so that no
/// use pins the type of an unexecuted part. `val` is the value under the intended assignment; leaves
/// are mostly compared with it (so the intended assignment mostly succeeds).
fn destruct(t: &mut Tape, e: Expr, ty: &Ty, val: Option<&Val>, fresh: &mut usize) -> Expr {
    let mut name = |p: &str| {
        *fresh += 1;
        format!("{p}{}", *fresh)
    };
    match ty {
        Ty::Either(a, b) => {
            let (l, r) = (name("l"), name("r"));
            let (lv, rv) = match val {
                Some(Val::Left(x)) => (Some(&**x), None),
                Some(Val::Right(x)) => (None, Some(&**x)),
                _ => (None, None),
            };
            let on_l = destruct(t, var(&l), a, lv, fresh);
            let on_r = destruct(t, var(&r), b, rv, fresh);
            let mut m = match_either(e, &l, (**a).clone(), on_l, &r, (**b).clone(), on_r);
            if let Expr::Match { left_first, .. } = &mut m {
                *left_first = t.index(4) != 0;
            }
            m
        }
        Ty::Option(a) => {
            let s = name("s");
            let sv = match val {
                Some(Val::Some(x)) => Some(&**x),
                _ => None,
            };
            let on_none = if t.index(6) == 0 { block(vec![Stmt::Expr(Expr::Call(CallName::Panic, vec![]))], None) } else { block(vec![], None) };
            let on_some = destruct(t, var(&s), a, sv, fresh);
            match_option(e, on_none, &s, (**a).clone(), on_some)
        }
        Ty::Bool => match t.index(4) {
            0 => block(vec![assert_(e)], None),
            1 => match_bool(e, block(vec![], None), block(vec![], None)),
            2 => match_bool(e, block(vec![Stmt::Expr(jet("check_lock_height", vec![int([0u128, 1000, 1001][t.index(3)], 32)]))], None), block(vec![], None)),
            _ => block(vec![let_pat(Pat::Ignore, Ty::Bool, e)], None),
        },
        Ty::Tuple(ts) if !ts.is_empty() => {
            let names: Vec<String> = ts.iter().map(|_| name("p")).collect();
            let mut stmts = vec![let_pat(Pat::Tuple(names.iter().map(|n| pid(n)).collect()), ty.clone(), e)];
            for (i, (n, ti)) in names.iter().zip(ts).enumerate() {
                let vi = match val {
                    Some(Val::Tuple(vs)) => vs.get(i),
                    _ => None,
                };
                if t.index(5) != 0 {
                    stmts.push(Stmt::Expr(destruct(t, var(n), ti, vi, fresh)));
                }
            }
            block(stmts, None)
        }
        Ty::UInt(b) if [8u16, 16, 32, 64].contains(b) && t.index(3) != 0 => {
            let k = match val {
                Some(Val::UInt(_, x)) if t.index(8) != 0 => Expr::Int(x.clone(), *b, LitStyle::Dec),
                _ => int(t.index(3) as u128, *b),
            };
            block(vec![assert_(jet(&format!("eq_{b}"), vec![e, k]))], None)
        }
        _ => block(vec![let_pat(Pat::Ignore, ty.clone(), e)], None),
    }
}

/// Witnesses of sum-heavy types that are only taken apart.
fn s_destructure(t: &mut Tape, ctx: &mut Ctx) -> Result<(), Failure> {
    let n = 1 + t.index(3);
    let mut witnesses = vec![];
    let mut stmts = env_statements(t);
    if t.index(3) == 0 {
        stmts.clear();
    }
    let mut fresh = 0usize;
    for i in 0..n {
        let ty = sum_ty(t, 0);
        let v = crate::valgen::gen_val(t, &ty);
        let name = format!("W{i}");
        let e = if t.index(3) == 0 {
            let x = format!("x{i}");
            stmts.push(let_(&x, ty.clone(), Expr::Witness(name.clone())));
            var(&x)
        } else {
            Expr::Witness(name.clone())
        };
        stmts.push(Stmt::Expr(destruct(t, e, &ty, Some(&v), &mut fresh)));
        witnesses.push((name, v, ty));
    }
    let prog = Program { items: vec![main_fn(stmts)] };
    let mut names = vec![];
    walk_program(&prog, &mut |e| {
        if let Expr::Witness(n) = e {
            if n.starts_with("ENVW") {
                names.push(n.clone());
            }
        }
    });
    for n in names {
        witnesses.push((n, Val::Bool(t.bool()), Ty::Bool));
    }
    let g = gen::Generated { prog, witnesses, params: vec![], labels: Default::default(), intended_verdict: Ok(()), n_holes: 0, perturbed: false };
    ctx.label("destructure");
    prune_compare(t, ctx, &g)
}

/// Shipped examples with their argument / witness files under all 40 environments.
fn e_examples(i: u64, ctx: &mut Ctx) -> Result<(), Failure> {
    let exs = crate::seeds::examples();
    let all_envs = envs();
    let ex = &exs[(i as usize) / all_envs.len() % exs.len()];
    let (ename, env) = &all_envs[(i as usize) % all_envs.len()];
    let args = match &ex.args_json {
        Some(a) => match catch(|| serde_json::from_str::<simfony::Arguments>(a)) {
            Ok(Ok(a)) => a,
            _ => return Err(Failure::internal(format!("{}.args unreadable", ex.name))),
        },
        None => simfony::Arguments::default(),
    };
    let c = compile(&ex.program, args, false, "c18")?;
    let mut maps: Vec<(String, simfony::WitnessValues)> = vec![("empty".into(), simfony::WitnessValues::default())];
    for (f, w) in &ex.wit_json {
        if let Ok(Ok(w)) = catch(|| serde_json::from_str::<simfony::WitnessValues>(w)) {
            maps.push((f.clone(), w));
        }
    }
    for (label, w) in maps {
        ctx.evals(1);
        let wj = json!(label);
        let detail = json!({"example": ex.name, "witness": label, "env": ename});
        let unpruned = pipe::satisfy_and_run(&c.program, &c.info, w.shallow_clone(), None, env);
        let verdict = judge(&unpruned, "c18", &ex.program, &wj, false)?;
        let sat = catch(|| c.program.satisfy_with_env(w, Some(env)));
        match (sat, verdict) {
            (Err(p), _) => return Err(Failure::new(format!("panic:{}", crate::run::panic_site(&p)), format!("satisfy_with_env panicked on example {}: {p}", ex.name)).with(detail)),
            (Ok(Err(_)), Verdict::Fails) => ctx.label("example:pruning-error-as-expected"),
            (Ok(Err(e)), Verdict::Success) => return Err(Failure::new("c18:pruning-fails-though-program-succeeds", format!("example {} ({label}, {ename}): unpruned succeeds, satisfy_with_env fails: {e}", ex.name)).with(detail)),
            (Ok(Ok(_)), Verdict::Fails) => return Err(Failure::new("c18:pruning-succeeds-though-program-fails", format!("example {} ({label}, {ename}): unpruned fails, satisfy_with_env returns a program", ex.name)).with(detail)),
            (Ok(Ok(s)), Verdict::Success) => {
                let out = pipe::run_satisfied(c.info.cmr, c.info.unit_to_unit, &s, env);
                let v = judge(&out, "c18:pruned", &ex.program, &wj, false)?;
                if v != Verdict::Success {
                    return Err(Failure::new("c18:pruned-program-fails-under-its-environment", format!("example {} ({label}, {ename}): {}", ex.name, out.brief())).with(detail));
                }
                ctx.label("example:pruning-ok");
                ctx.nontrivial(digest(&[ex.name.as_bytes(), label.as_bytes(), ename.as_bytes()]));
            }
        }
    }
    ctx.sample(i, || json!({"example": ex.name, "env": ename}));
    Ok(())
}

pub fn streams() -> Vec<Stream> {
    vec![Stream { name: "examples", kind: Kind::Enum { count: |_| (crate::seeds::examples().len() * 40) as u64, complete: |_| true, f: e_examples }, isolate: false }, Stream { name: "prune", kind: Kind::Tape { cases: |t: Tier| t.pick(12_000, 150_000), max_len: 420, f: s_prune }, isolate: false }, Stream { name: "destructure", kind: Kind::Tape { cases: |t: Tier| t.pick(20_000, 250_000), max_len: 300, f: s_destructure }, isolate: false }]
}

pub fn def() -> PropertyDef {
    PropertyDef {
        id: "C18",
        rule: "stream examples (complete): the 20 shipped examples with their argument / witness files and the empty map under all 40 environments. stream destructure: 1-3 witnesses of sum-heavy types (Either / Option / tuples to depth 3 over (), bool, u1..u64) that are only taken apart by matches and patterns, with random values, optionally preceded by environment statements; cases whose failure is explained by the dependency call RedeemNode::prune alone (known finding c18:dependency-value-prune-corrupts-witness) are excluded and counted. stream prune: generated programs with 1-3 extra statements that assert or branch on environment jets (check_lock_height / _time / _distance, tx_is_final, tx_lock_height, lock_time, version, current_sequence, witness-controlled branches) x up to 3 witness assignments x 4 of the 40 environments dummy_with(lock_time in {0, 1000, 499999999, 500000000, 1734967835}, sequence in {MAX, ENABLE_LOCKTIME_NO_RBF, from_height(1000), ZERO}, fee in {false,true}). Oracle (differential, no reference for the environment jets needed): verdict of satisfy(w) executed under env; satisfy_with_env(w, Some(env)) is Err iff that verdict is failure; when Ok the pruned program has the commit CMR, its encoding decodes to the same CMR, its witness nodes are well-typed and it succeeds under env; nothing panics. evaluations = (program, witness, environment) triples. Non-trivial = the unpruned program has a case node and (the triples of the case give both verdicts or the pruned program is strictly smaller); distinct by digest.",
        assumptions: &["the Bit Machine's behaviour on the unpruned program is the reference for 'fails under env'"],
        streams,
        health: &[("prune", "pruning:ok", 300), ("prune", "pruning:error-as-expected", 100)],
    }
}
