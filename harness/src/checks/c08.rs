//! C08 - fold consumes list elements first to last, each exactly once.

use std::collections::HashMap;

use serde_json::json;

use crate::checks::c01::check_maps;
use crate::checks::common::*;
use crate::eval;
use crate::gen::{Gen, GenCfg, Generated};
use crate::layout;
use crate::mb::*;
use crate::model::*;
use crate::render::{self, Style};
use crate::run::{Ctx, Failure, Kind, PropertyDef, Stream, Tier};
use crate::tape::{digest, splitmix, Tape};

#[derive(Clone, Copy, Debug, PartialEq, Eq)]
enum FoldFn {
    History,
    CountLast,
    PairsNonCommutative,
    OptionElems,
    Panicking,
    EitherElems,
    PartialElems,
}
const FNS: [FoldFn; 7] = [FoldFn::History, FoldFn::CountLast, FoldFn::PairsNonCommutative, FoldFn::OptionElems, FoldFn::Panicking, FoldFn::EitherElems, FoldFn::PartialElems];

#[derive(Clone, Copy, Debug, PartialEq, Eq)]
enum Source {
    Literal,
    Witness,
    Function,
    MatchResult,
    CastFromStructure,
}
const SOURCES: [Source; 5] = [Source::Literal, Source::Witness, Source::Function, Source::MatchResult, Source::CastFromStructure];

/// acc' = (acc * 31 + e) mod 2^32 for e: u8 (as statements leaving the result in `out`)
fn history_step(acc: &str, e8: Expr) -> Expr {
    block(
        vec![
            let_("p", u(64), jet("multiply_32", vec![var(acc), int(31, 32)])),
            let_("lo", u(32), jet("rightmost_64_32", vec![var("p")])),
            let_pat(Pat::Tuple(vec![Pat::Ignore, pid("s")]), Ty::Tuple(vec![Ty::Bool, u(32)]), jet("add_32", vec![var("lo"), jet("left_pad_low_8_32", vec![e8])])),
        ],
        Some(var("s")),
    )
}

/// acc' = (acc * 31 + x) mod 2^32 for x: u32
fn history_step32(acc: &str, x32: Expr) -> Expr {
    block(
        vec![
            let_("p", u(64), jet("multiply_32", vec![var(acc), int(31, 32)])),
            let_("lo", u(32), jet("rightmost_64_32", vec![var("p")])),
            let_pat(Pat::Tuple(vec![Pat::Ignore, pid("s")]), Ty::Tuple(vec![Ty::Bool, u(32)]), jet("add_32", vec![var("lo"), x32])),
        ],
        Some(var("s")),
    )
}

fn fold_function(kind: FoldFn, panic_at: Option<u8>) -> (Item, Ty, Ty, Val) {
    // returns (function item, element type, accumulator type, initial accumulator)
    match kind {
        FoldFn::History => (func("f", vec![("e", u(8)), ("acc", u(32))], u(32), block(vec![], Some(history_step("acc", var("e"))))), u(8), u(32), Val::uint(32, 7)),
        FoldFn::CountLast => {
            let at = Ty::Tuple(vec![u(16), u(8)]);
            let body = block(
                vec![
                    let_pat(Pat::Tuple(vec![pid("n"), Pat::Ignore]), at.clone(), var("acc")),
                    let_pat(Pat::Tuple(vec![Pat::Ignore, pid("n1")]), Ty::Tuple(vec![Ty::Bool, u(16)]), jet("increment_16", vec![var("n")])),
                ],
                Some(tuple(vec![var("n1"), var("e")])),
            );
            (func("f", vec![("e", u(8)), ("acc", at.clone())], at.clone(), body), u(8), at, Val::Tuple(vec![Val::uint(16, 0), Val::uint(8, 0)]))
        }
        FoldFn::PairsNonCommutative => {
            let et = Ty::Tuple(vec![u(8), Ty::Bool]);
            let body = block(
                vec![let_pat(Pat::Tuple(vec![pid("x"), pid("flag")]), et.clone(), var("e"))],
                Some(match_bool(var("flag"), history_step("acc", var("x")), jet("xor_32", vec![var("acc"), jet("left_pad_low_8_32", vec![var("x")])]))),
            );
            (func("f", vec![("e", et.clone()), ("acc", u(32))], u(32), body), et, u(32), Val::uint(32, 1))
        }
        FoldFn::OptionElems => {
            let et = Ty::option(u(8));
            let body = block(vec![], Some(match_option(var("e"), jet("complement_32", vec![var("acc")]), "x", u(8), history_step("acc", var("x")))));
            (func("f", vec![("e", et.clone()), ("acc", u(32))], u(32), body), et, u(32), Val::uint(32, 3))
        }
        FoldFn::EitherElems => {
            // sides of different widths; both arms order-sensitive
            let et = Ty::either(u(8), u(16));
            let body = block(vec![], Some(match_either(var("e"), "x", u(8), history_step("acc", var("x")), "y", u(16), history_step32("acc", jet("left_pad_low_16_32", vec![var("y")])))));
            (func("f", vec![("e", et.clone()), ("acc", u(32))], u(32), body), et, u(32), Val::uint(32, 5))
        }
        FoldFn::PartialElems => {
            // the function reads only the first component of each element
            let et = Ty::Tuple(vec![u(32), u(16)]);
            let body = block(vec![let_pat(Pat::Tuple(vec![pid("x"), Pat::Ignore]), et.clone(), var("e"))], Some(history_step32("acc", var("x"))));
            (func("f", vec![("e", et.clone()), ("acc", u(32))], u(32), body), et, u(32), Val::uint(32, 11))
        }
        FoldFn::Panicking => {
            let k = panic_at.unwrap_or(0);
            let body = block(
                vec![assert_(match_bool(jet("eq_8", vec![var("e"), int(k as u128, 8)]), Expr::Bool(false), Expr::Bool(true)))],
                Some(history_step("acc", var("e"))),
            );
            (func("f", vec![("e", u(8)), ("acc", u(32))], u(32), body), u(8), u(32), Val::uint(32, 9))
        }
    }
}

fn element(kind: FoldFn, i: usize, salt: u64) -> Val {
    // pairwise distinct payloads so order and multiplicity show
    let byte = ((i as u64 * 37 + salt % 7 + 1) % 251 + 1) as u128;
    match kind {
        FoldFn::History | FoldFn::CountLast | FoldFn::Panicking => Val::uint(8, (i as u128 % 255) + 1),
        FoldFn::PairsNonCommutative => Val::Tuple(vec![Val::uint(8, byte), Val::Bool((i + salt as usize) % 3 != 0)]),
        FoldFn::EitherElems => {
            if (i + salt as usize) % 3 == 1 {
                Val::Right(Box::new(Val::uint(16, byte * 257 % 65521 + 1)))
            } else {
                Val::Left(Box::new(Val::uint(8, byte)))
            }
        }
        FoldFn::PartialElems => Val::Tuple(vec![Val::uint(32, byte * 65537 + i as u128), Val::uint(16, (i as u128 * 7 + 3) % 65536)]),
        FoldFn::OptionElems => {
            if (i + salt as usize) % 4 == 1 {
                Val::None
            } else {
                Val::Some(Box::new(Val::uint(8, byte)))
            }
        }
    }
}

pub struct Case {
    pub bound: usize,
    pub len: usize,
    kind: FoldFn,
    source: Source,
    salt: u64,
}

fn build(case: &Case, t: &mut Tape) -> (Generated, String) {
    let n = case.bound;
    // for the panicking function: exactly one position panics (2/3) or none (1/3)
    let panic_at = if case.kind == FoldFn::Panicking && case.len > 0 && case.salt % 3 != 0 { Some(((case.salt as usize / 3) % case.len) as u8 % 255 + 1) } else if case.kind == FoldFn::Panicking { Some(0) } else { None };
    let (f, et, at, init) = fold_function(case.kind, panic_at);
    let lt = Ty::list(et.clone(), n);
    let elems: Vec<Val> = (0..case.len).map(|i| element(case.kind, i, case.salt)).collect();
    let lv = Val::List(elems.clone());
    let mut items = vec![f];
    let mut witnesses = vec![];
    let list_expr = match case.source {
        Source::Literal => render::val_to_expr(&lv, &lt, false),
        Source::Witness => {
            witnesses.push(("L".to_string(), lv.clone(), lt.clone()));
            Expr::Witness("L".into())
        }
        Source::Function => {
            items.push(func("mk", vec![], lt.clone(), block(vec![], Some(render::val_to_expr(&lv, &lt, false)))));
            call("mk", vec![])
        }
        Source::MatchResult => {
            witnesses.push(("B".to_string(), Val::Bool(true), Ty::Bool));
            match_bool(Expr::Witness("B".into()), render::val_to_expr(&lv, &lt, false), Expr::List(vec![]))
        }
        Source::CastFromStructure => {
            // the list written in its documented structural form and cast back
            let st = if n == 2 { Ty::option(et.clone()) } else { Ty::Tuple(vec![Ty::option(Ty::array(et.clone(), n / 2)), Ty::list(et.clone(), n / 2)]) };
            let sv = layout::cast(&lv, &lt, &st).expect("list casts to its structural form");
            cast(st.clone(), render::val_to_expr(&sv, &st, false))
        }
    };
    let mut stmts = vec![let_("l", lt.clone(), list_expr), let_("r", at.clone(), Expr::Call(CallName::Fold("f".into(), n), vec![var("l"), render::val_to_expr(&init, &at, false)]))];
    let mut g = Gen::new(t, GenCfg { max_holes: 64, ..GenCfg::general() });
    g.observe(&var("r"), &at, &mut stmts, 0);
    items.push(main_fn(stmts));
    let prog = Program { items };
    let n_holes = count_holes(&prog);
    let mut pv = vec![false; n_holes];
    let perturbed = case.salt % 5 == 0 && n_holes > 0;
    if perturbed {
        pv[(case.salt as usize / 5) % n_holes] = true;
    }
    let wm: HashMap<String, Val> = witnesses.iter().map(|(n, v, _)| (n.clone(), v.clone())).collect();
    let (filled, verdict) = eval::fill_holes(&prog, &wm, &HashMap::new(), pv);
    let gen = Generated { prog: filled, witnesses, params: vec![], labels: Default::default(), intended_verdict: verdict, n_holes, perturbed };
    let text = render::render(&gen.prog, &Style::canonical());
    (gen, text)
}

/// The (bound, length) points of a tier.
fn points(tier: Tier) -> &'static Vec<(usize, usize)> {
    static Q: std::sync::OnceLock<Vec<(usize, usize)>> = std::sync::OnceLock::new();
    static T: std::sync::OnceLock<Vec<(usize, usize)>> = std::sync::OnceLock::new();
    let make = |full_to: usize, max: usize| {
        let mut v = vec![];
        let mut n = 2;
        while n <= max {
            if n <= full_to {
                for k in 0..n {
                    v.push((n, k));
                }
            } else {
                let mut ks = vec![0, 1, n - 1, n - 2];
                let mut j = 2;
                while j < n {
                    ks.extend([j - 1, j, j + 1]);
                    j *= 2;
                }
                ks.retain(|k| *k < n);
                ks.sort();
                ks.dedup();
                for k in ks {
                    v.push((n, k));
                }
            }
            n *= 2;
        }
        v
    };
    match tier {
        Tier::Quick => Q.get_or_init(|| make(64, 256)),
        Tier::Thorough => T.get_or_init(|| make(512, 512)),
    }
}

fn n_cases(tier: Tier) -> u64 {
    (points(tier).len() * FNS.len() * SOURCES.len()) as u64
}

fn e_fold(i: u64, ctx: &mut Ctx) -> Result<(), Failure> {
    let pts = points(ctx.tier);
    let per = (FNS.len() * SOURCES.len()) as u64;
    let (bound, len) = pts[(i / per) as usize];
    let kind = FNS[((i % per) as usize) / SOURCES.len()];
    let source = SOURCES[(i % per) as usize % SOURCES.len()];
    let case = Case { bound, len, kind, source, salt: splitmix(i) % 1000 };
    let mut tape = Tape::new(vec![]);
    let (g, text) = build(&case, &mut tape);
    require_well_typed(&g, &text)?;
    ctx.label(&format!("fn:{kind:?}"));
    ctx.label(&format!("source:{source:?}"));
    let mut maps = vec![g.wit_map()];
    // a second assignment: two elements swapped / the other arm
    if source == Source::Witness && len >= 2 {
        let mut m = g.wit_map();
        if let Some(Val::List(v)) = m.get_mut("L") {
            v.swap(0, len - 1);
        }
        maps.push(m);
    }
    if source == Source::MatchResult {
        let mut m = g.wit_map();
        m.insert("B".into(), Val::Bool(false));
        maps.push(m);
    }
    let (ok, fails) = check_maps(&g, &text, &maps, ctx, "c08", &[false])?;
    if fails > 0 {
        ctx.label("some-run-fails");
    }
    if ok > 0 {
        ctx.label("some-run-succeeds");
    }
    if len >= 2 {
        ctx.nontrivial(digest(&[text.as_bytes()]));
        // blocks: bits set in the length
        if len.count_ones() >= 2 {
            ctx.label("length-spans-several-blocks");
        }
    }
    ctx.sample((bound * 1000 + len) as u64, || json!({"bound": bound, "length": len, "function": format!("{kind:?}"), "source": format!("{source:?}"), "program": truncate(&text, 900)}));
    Ok(())
}

pub fn streams() -> Vec<Stream> {
    vec![Stream { name: "folds", kind: Kind::Enum { count: n_cases, complete: |_| true, f: e_fold }, isolate: false }]
}

pub fn def() -> PropertyDef {
    PropertyDef {
        id: "C08",
        rule: "enumerated: bound N in {2,4,...,256} (thorough: ...512) x every length 0..N-1 for N <= 64 (thorough: all N) and the block-boundary lengths {0,1,2^j-1,2^j,2^j+1,N-2,N-1} above x fold functions {history acc*31+e mod 2^32, count-and-last (u16,u8), non-commutative on (u8,bool) pairs, Option<u8> elements, panicking assert!(e != K) with exactly one / no panicking position, Either<u8,u16> elements (sides of different width, both arms order-sensitive), (u32,u16) elements of which the function reads only the first component} x list source {literal, witness, returned by a function, result of a match, cast from the documented structural form}; element values pairwise distinct. Oracle: the reference interpreter's loop acc = f(e_i, acc), i = 1..k; the program asserts every integer of the folded value (1 constant deliberately wrong in 1/5 of the cases), and the verdict (success / panic) must equal the interpreter's, also with two elements swapped (witness source) and on the other match arm. evaluations = program executions. Non-trivial = length >= 2 (order observable); distinct by program text. exhaustive = the enumeration of the tier's (bound, length, function, source) grid completed.",
        assumptions: &[],
        streams,
        health: &[],
    }
}
