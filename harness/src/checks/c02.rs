//! C02 - what `satisfy` returns spends the committed CMR.

use std::collections::HashMap;

use serde_json::json;

use crate::checks::common::*;
use crate::conv;
use crate::gen::{self, GenCfg};
use crate::layout;
use crate::pipe::{self, Outcome};
use crate::render::{self, Style};
use crate::run::{catch, Ctx, Failure, Kind, PropertyDef, Stream, Tier};
use crate::seeds;
use crate::tape::{digest, Tape};
use crate::valgen;

fn s_uninspected(t: &mut Tape, ctx: &mut Ctx) -> Result<(), Failure> {
    let cfg = GenCfg { uninspected_bias: true, ..GenCfg::small() };
    let g = gen::generate(t, cfg);
    let style = Style::from_seed(t.next() as u64);
    let text = render::render(&g.prog, &style);
    require_well_typed(&g, &text)?;
    count_labels(ctx, &g);
    let env = pipe::dummy_env();
    let declared_bits: usize = g.witnesses.iter().map(|(_, _, ty)| layout::shape(ty).width()).sum();
    let mut maps: Vec<HashMap<String, crate::model::Val>> = vec![g.wit_map()];
    for _ in 0..3 {
        maps.push(g.witnesses.iter().map(|(n, _, ty)| (n.clone(), valgen::gen_val(t, ty))).collect());
    }
    let pm = g.param_map();
    let mut uninspected = false;
    for debug in [false, true] {
        let c = compile(&text, to_arguments(&g), debug, "c02")?;
        let mut redeem_cmrs = vec![];
        for wm in &maps {
            ctx.evals(1);
            let wj = wit_json(&g, wm);
            let out = pipe::satisfy_and_run(&c.program, &c.info, to_witness_values(&g, wm), None, &env);
            let got = judge(&out, "c02", &text, &wj, debug)?;
            if let Outcome::Ran(r) = &out {
                redeem_cmrs.push(r.redeem_cmr);
                if r.witness_bits < declared_bits {
                    uninspected = true;
                }
            }
            // the reference interpreter comes for free here
            if let Some(exp) = expected(&g.prog, wm, &pm)? {
                if exp != got {
                    return Err(Failure::new("c02:verdict-differs-from-source-semantics", format!("expected {exp:?}, got {got:?}\n{}\n{}", truncate(&text, 2500), wj)).with(json!({"program": text, "witness": wj})));
                }
            }
        }
        // the committed CMR does not depend on the witness values, nor on satisfy having been called
        let again = pipe::commit(&c.program).map_err(|p| Failure::new(format!("panic:{}", crate::run::panic_site(&p)), format!("commit() panicked after satisfy: {p}")))?;
        if again.cmr != c.info.cmr || again.bytes != c.info.bytes {
            return Err(Failure::new("c02:commit-changes-after-satisfy", format!("commit() differs before and after satisfy\n{}", truncate(&text, 2500))).with(json!({"program": text})));
        }
    }
    if uninspected {
        ctx.label("uninspected-witness");
    }
    if !g.witnesses.is_empty() {
        ctx.label("has-witness");
        ctx.nontrivial(digest(&[text.as_bytes()]));
    }
    ctx.sample(text.len() as u64, || json!({"program": truncate(&text, 1500), "witnesses": wit_json(&g, &g.wit_map()), "uninspected_witness": uninspected}));
    Ok(())
}

/// Shipped examples with their .wit / .args files and with random witness values of the declared types.
fn s_examples(i: u64, ctx: &mut Ctx) -> Result<(), Failure> {
    let exs = seeds::examples();
    let ex = &exs[(i as usize) % exs.len()];
    let round = (i as usize) / exs.len();
    let env = pipe::dummy_env();
    let args = match &ex.args_json {
        Some(a) => match catch(|| serde_json::from_str::<simfony::Arguments>(a)) {
            Ok(Ok(a)) => a,
            other => return Err(Failure::new("c02:example-args-unreadable", format!("{}.args: {:?}", ex.name, other.map(|r| r.map(|_| ()).map_err(|e| e.to_string()))))),
        },
        None => simfony::Arguments::default(),
    };
    let mut tape = Tape::new((0..64).map(|k| crate::tape::splitmix(i * 1000 + k) as u32).collect());
    for debug in [false, true] {
        let c = compile(&ex.program, args.clone(), debug, "c02")?;
        // declared witness types through the analysis API
        let wt = catch(|| {
            use simfony::parse::ParseFromStr;
            let p = simfony::parse::Program::parse_from_str(&ex.program).ok()?;
            let a = simfony::ast::Program::analyze(&p).ok()?;
            Some(a.witness_types().shallow_clone())
        })
        .ok()
        .flatten();
        let mut maps: Vec<(String, simfony::WitnessValues)> = vec![];
        if round == 0 {
            maps.push(("empty".into(), simfony::WitnessValues::default()));
            for (f, w) in &ex.wit_json {
                match catch(|| serde_json::from_str::<simfony::WitnessValues>(w)) {
                    Ok(Ok(w)) => maps.push((f.clone(), w)),
                    other => return Err(Failure::new("c02:example-witness-unreadable", format!("{f}: {:?}", other.map(|r| r.map(|_| ()).map_err(|e| e.to_string()))))),
                }
            }
        } else if let Some(wt) = &wt {
            let mut m = HashMap::new();
            let mut items: Vec<_> = wt.iter().collect();
            items.sort_by(|a, b| a.0.as_inner().cmp(b.0.as_inner()));
            for (n, ty) in items {
                let mty = conv::from_resolved(ty);
                let v = valgen::gen_val(&mut tape, &mty);
                m.insert(n.clone(), conv::to_value(&v, &mty));
            }
            maps.push((format!("random#{round}"), simfony::WitnessValues::from(m)));
        }
        for (label, w) in maps {
            ctx.evals(1);
            let wj = json!(label);
            let out = pipe::satisfy_and_run(&c.program, &c.info, w, None, &env);
            let v = judge(&out, "c02", &ex.program, &wj, debug)?;
            ctx.label(if v == Verdict::Success { "example:run-ok" } else { "example:run-fails" });
            ctx.nontrivial(digest(&[ex.name.as_bytes(), label.as_bytes(), &[debug as u8]]));
        }
    }
    ctx.sample(ex.program.len() as u64, || json!({"example": ex.name, "round": round}));
    Ok(())
}

pub fn streams() -> Vec<Stream> {
    vec![
        Stream { name: "uninspected", kind: Kind::Tape { cases: |t: Tier| t.pick(40_000, 800_000), max_len: 300, f: s_uninspected }, isolate: false },
        Stream {
            name: "examples",
            kind: Kind::Enum { count: |t: Tier| seeds::examples().len() as u64 * t.pick(8, 80), complete: |_| false, f: s_examples },
            isolate: false,
        },
    ]
}

pub fn def() -> PropertyDef {
    PropertyDef {
        id: "C02",
        rule: "stream uninspected: generated programs with the generator's weight shifted to witnesses whose value is never inspected (unused / ignored bindings, dropped blocks, ignored parameters, tag-only matches), x {intended, 3 random} witness maps x debug {off,on}; stream examples: the shipped examples with their .args/.wit JSON files (serde), the empty map and random witness values of the declared types. Oracle = validity predicate on everything satisfy accepts: redeem CMR == commit CMR, every witness node's value is of the node's type, encode -> decode succeeds with the same CMR, Bit Machine runs (Ok or Err) without panicking on the satisfied and the decoded program with equal verdicts, commit() unchanged after satisfy calls (and, for generated programs, verdict == reference interpreter). evaluations = satisfy+run executions. Non-trivial = program with >= 1 witness (distinct by digest); label `uninspected-witness` = the witness nodes' final types are narrower than the declared types.",
        assumptions: &["the Simplicity decoder and Bit Machine of simplicity-lang 0.4.0 are the reference for 'decodes' and 'runs'"],
        streams,
        health: &[("uninspected", "uninspected-witness", 300), ("uninspected", "has-witness", 500)],
    }
}
