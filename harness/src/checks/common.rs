//! Shared pieces of the behavioural checks (C01, C02, C05, C12, C14, C16, C17, C18).

use std::collections::HashMap;

use serde_json::json;

use crate::conv;
use crate::eval::{self, Stop};
use crate::gen::Generated;
use crate::model::*;
use crate::pipe::{self, CommitInfo, Outcome};
use crate::run::{Ctx, Failure};
use crate::tape::Tape;
use crate::tycheck;
use crate::valgen;

pub fn truncate(s: &str, n: usize) -> String {
    crate::checks::c06::truncate(s, n)
}

/// Witness assignments to try: all of them when the space has <= `cap` points, otherwise the
/// intended one, boundary neighbours of it and some random ones. The intended one comes first.
pub fn assignments(t: &mut Tape, g: &Generated, cap: usize, n_random: usize) -> (Vec<HashMap<String, Val>>, bool) {
    let intended = g.wit_map();
    if g.witnesses.is_empty() {
        return (vec![intended], true);
    }
    let mut total: u128 = 1;
    for (_, _, ty) in &g.witnesses {
        total = total.saturating_mul(ty.cardinality(cap as u128 + 1));
        if total > cap as u128 {
            break;
        }
    }
    if total <= cap as u128 {
        let mut all: Vec<HashMap<String, Val>> = vec![HashMap::new()];
        for (n, _, ty) in &g.witnesses {
            let vals = valgen::all_vals(ty, cap).expect("small domain");
            let mut next = Vec::with_capacity(all.len() * vals.len());
            for m in &all {
                for v in &vals {
                    let mut m2 = m.clone();
                    m2.insert(n.clone(), v.clone());
                    next.push(m2);
                }
            }
            all = next;
        }
        // intended first
        if let Some(p) = all.iter().position(|m| *m == intended) {
            all.swap(0, p);
        }
        return (all, true);
    }
    let mut out = vec![intended.clone()];
    for (n, v, ty) in &g.witnesses {
        let mut nb = vec![];
        valgen::neighbours(v, ty, &mut nb, 6);
        for x in nb {
            if x.has_type(ty) {
                let mut m = intended.clone();
                m.insert(n.clone(), x);
                if !out.contains(&m) {
                    out.push(m);
                }
            }
        }
    }
    out.truncate(40);
    for _ in 0..n_random {
        let mut m = HashMap::new();
        for (n, _, ty) in &g.witnesses {
            m.insert(n.clone(), valgen::gen_val(t, ty));
        }
        out.push(m);
    }
    (out, false)
}

pub fn to_witness_values(g: &Generated, m: &HashMap<String, Val>) -> simfony::WitnessValues {
    let items: Vec<(String, Val, Ty)> = g
        .witnesses
        .iter()
        .filter_map(|(n, _, ty)| m.get(n).map(|v| (n.clone(), v.clone(), ty.clone())))
        .collect();
    conv::witness_values(&items)
}

pub fn to_arguments(g: &Generated) -> simfony::Arguments {
    conv::arguments(&g.params)
}

pub fn wit_json(g: &Generated, m: &HashMap<String, Val>) -> serde_json::Value {
    let mut o = serde_json::Map::new();
    for (n, _, ty) in &g.witnesses {
        if let Some(v) = m.get(n) {
            o.insert(n.clone(), json!(format!("{}: {}", crate::render::val_text(v, ty), ty)));
        }
    }
    serde_json::Value::Object(o)
}

/// Sanity: the generator and the independent checker must agree that the program is well-typed.
pub fn require_well_typed(g: &Generated, text: &str) -> Result<tycheck::Info, Failure> {
    tycheck::check_program(&g.prog).map_err(|why| {
        Failure::new("INTERNAL:generator-vs-tycheck", format!("generated program is ill-typed for tycheck: {why}\n{}", truncate(text, 2000)))
    })
}

pub struct Compiled {
    pub program: simfony::CompiledProgram,
    pub info: CommitInfo,
}

/// Template -> instantiate -> commit, classifying every failure.
pub fn compile(text: &str, args: simfony::Arguments, debug: bool, what: &str) -> Result<Compiled, Failure> {
    let detail = || json!({"program": text, "debug": debug});
    let t = match pipe::new_template(text) {
        Ok(Ok(t)) => t,
        Ok(Err(e)) => {
            return Err(Failure::new(
                format!("{what}:rejected"),
                format!("a well-typed generated program was rejected: {}\n--- program ---\n{}", pipe::last_line(&e), truncate(text, 2500)),
            )
            .with(detail()))
        }
        Err(p) => return Err(Failure::new(format!("panic:{}", crate::run::panic_site(&p)), format!("TemplateProgram::new panicked: {p}\n{}", truncate(text, 2500))).with(detail())),
    };
    let c = match pipe::instantiate(&t, args, debug) {
        Ok(Ok(c)) => c,
        Ok(Err(e)) => {
            let sig = if e.contains("Failed to compile to Simplicity") { "cannot-compile" } else { "instantiate-err" };
            return Err(Failure::new(
                format!("{what}:{sig}"),
                format!("instantiate(debug={debug}) failed on an accepted program: {}\n--- program ---\n{}", pipe::last_line(&e), truncate(text, 2500)),
            )
            .with(detail()));
        }
        Err(p) => return Err(Failure::new(format!("panic:{}", crate::run::panic_site(&p)), format!("instantiate panicked: {p}\n{}", truncate(text, 2500))).with(detail())),
    };
    let info = match pipe::commit(&c) {
        Ok(i) => i,
        Err(p) => return Err(Failure::new(format!("panic:{}", crate::run::panic_site(&p)), format!("commit() panicked: {p}\n{}", truncate(text, 2500))).with(detail())),
    };
    if !info.unit_to_unit {
        return Err(Failure::new(format!("{what}:commit-not-1-to-1"), format!("commit() is not of type 1 -> 1\n{}", truncate(text, 2500))).with(detail()));
    }
    Ok(Compiled { program: c, info })
}

#[derive(Clone, Copy, Debug, PartialEq, Eq)]
pub enum Verdict {
    Success,
    Fails,
}

/// Validity of a `Ran` outcome (C02's predicate) and its verdict.
pub fn judge(out: &Outcome, what: &str, text: &str, wit: &serde_json::Value, debug: bool) -> Result<Verdict, Failure> {
    let detail = || json!({"program": text, "witness": wit, "debug": debug, "outcome": out.brief()});
    let ctxt = || format!("\n--- program (debug={debug}) ---\n{}\n--- witness ---\n{}", truncate(text, 2500), wit);
    match out {
        Outcome::Ran(r) => {
            if r.commit_cmr != r.redeem_cmr {
                return Err(Failure::new(format!("{what}:redeem-cmr-differs-from-commit"), format!("redeem CMR {} != commit CMR {}{}", r.redeem_cmr, r.commit_cmr, ctxt())).with(detail()));
            }
            if !r.witness_values_consistent {
                return Err(Failure::new(
                    format!("{what}:witness-value-object-inconsistent"),
                    format!("a witness node of the returned program holds a value whose compact encoding does not re-decode to its own padded bits (so the encoded program differs from the in-memory one): {}{}", out.brief(), ctxt()),
                )
                .with(detail()));
            }
            if !r.witness_typing_ok {
                return Err(Failure::new(format!("{what}:witness-node-value-not-of-node-type"), format!("a witness node holds a value that is not of the node's type{}", ctxt())).with(detail()));
            }
            if r.mirror_asserts && r.decoded.is_err() {
                return Err(Failure::new(
                    format!("{what}:mirror-assert-nodes-merged-by-sharing"),
                    format!("the program contains case / assertl / assertr nodes of different kind with the same identity hash (e.g. a case with two identical branches pruned to the left in one place and to the right in another, or kept whole in one place and pruned in another); the dependency's encoder shares nodes by that hash, merges them, and the result does not decode: {}{}", out.brief(), ctxt()),
                )
                .with(detail()));
            }
            match &r.decoded {
                Err(e) => return Err(Failure::new(format!("{what}:encoding-does-not-decode"), format!("the encoded redeem program is rejected by the decoder: {e}{}", ctxt())).with(detail())),
                Ok(c) if *c != r.commit_cmr => return Err(Failure::new(format!("{what}:decoded-cmr-differs"), format!("decoded CMR differs from the commit CMR{}", ctxt())).with(detail())),
                Ok(_) => {}
            }
            let e1 = r.exec.is_ok();
            let e2 = matches!(r.exec_decoded, Some(Ok(())));
            if e1 != e2 && r.mirror_asserts {
                return Err(Failure::new(
                    format!("{what}:mirror-assert-nodes-merged-by-sharing"),
                    format!("the program contains case / assertl / assertr nodes of different kind with the same identity hash (e.g. a case with two identical branches pruned to the left in one place and to the right in another, or kept whole in one place and pruned in another); the dependency's encoder shares nodes by that hash and merges them, so the decoded program takes a hidden branch: {}{}", out.brief(), ctxt()),
                )
                .with(detail()));
            }
            if e1 != e2 {
                return Err(Failure::new(format!("{what}:decoded-program-behaves-differently"), format!("execution verdict differs between the satisfied and the decoded program: {}{}", out.brief(), ctxt())).with(detail()));
            }
            Ok(if e1 { Verdict::Success } else { Verdict::Fails })
        }
        Outcome::Panicked { stage, msg } => Err(Failure::new(format!("panic:{}", crate::run::panic_site(msg)), format!("panic at stage {stage:?}: {msg}{}", ctxt())).with(detail())),
        Outcome::SatisfyErr(e) => Err(Failure::new(format!("{what}:satisfy-err"), format!("satisfy failed on a type-correct witness map: {e}{}", ctxt())).with(detail())),
        Outcome::Rejected(e) | Outcome::InstantiateErr(e) => Err(Failure::new(format!("{what}:compile-err"), format!("{e}{}", ctxt())).with(detail())),
    }
}

pub fn expected(prog: &Program, wm: &HashMap<String, Val>, pm: &HashMap<String, Val>) -> Result<Option<Verdict>, Failure> {
    match eval::run_main(prog, wm, pm) {
        Ok(()) => Ok(Some(Verdict::Success)),
        Err(Stop::Panic(_)) => Ok(Some(Verdict::Fails)),
        Err(Stop::Unsupported(_)) => Ok(None),
        Err(Stop::IllTyped(why)) => Err(Failure::new("INTERNAL:eval-ill-typed", format!("interpreter rejected a generated program: {why}"))),
    }
}

pub fn count_labels(ctx: &mut Ctx, g: &Generated) {
    for (l, n) in &g.labels {
        let _ = n;
        ctx.label(l);
    }
}
