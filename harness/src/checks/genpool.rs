//! Pools of generated seeds (programs, modules, JSON files) shared by the text-level checks.
//! Deterministic: built once from fixed tapes.

use std::sync::OnceLock;

use crate::conv;
use crate::gen::{self, GenCfg};
use crate::render::{self, Style};
use crate::tape::{splitmix, Tape};
use crate::valgen::{self, TyCfg};

fn tape(i: u64, salt: u64, n: usize) -> Tape {
    Tape::new((0..n as u64).map(|k| splitmix(i * 1_000_003 + salt * 7919 + k) as u32).collect())
}

pub fn programs() -> &'static Vec<String> {
    static P: OnceLock<Vec<String>> = OnceLock::new();
    P.get_or_init(|| {
        let mut out = vec![];
        for i in 0..120u64 {
            let mut t = tape(i, 1, 500);
            let cfg = if i % 3 == 0 { GenCfg::general() } else { GenCfg { params: i % 4 == 1, ..GenCfg::small() } };
            let g = gen::generate(&mut t, cfg);
            let style = if i % 2 == 0 { Style::canonical() } else { Style::from_seed(splitmix(i)) };
            out.push(render::render(&g.prog, &style));
        }
        out
    })
}

fn maps(i: u64) -> Vec<(String, crate::model::Val, crate::model::Ty)> {
    let mut t = tape(i, 2, 300);
    let n = 1 + t.index(5);
    let mut items = vec![];
    for k in 0..n {
        let ty = valgen::gen_ty(&mut t, &TyCfg::GENERAL, 0);
        let v = valgen::gen_val(&mut t, &ty);
        items.push((format!("N{k}"), v, ty));
    }
    items
}

pub fn modules() -> &'static Vec<String> {
    static P: OnceLock<Vec<String>> = OnceLock::new();
    P.get_or_init(|| {
        (0..60u64)
            .map(|i| {
                let style = if i % 2 == 0 { Style::canonical() } else { Style::from_seed(splitmix(i + 99)) };
                render::module_text(if i % 3 == 0 { "param" } else { "witness" }, &maps(i), &style)
            })
            .collect()
    })
}

pub fn jsons() -> &'static Vec<String> {
    static P: OnceLock<Vec<String>> = OnceLock::new();
    P.get_or_init(|| {
        (0..60u64)
            .filter_map(|i| {
                let w = conv::witness_values(&maps(i + 1000));
                serde_json::to_string_pretty(&w).ok()
            })
            .collect()
    })
}
