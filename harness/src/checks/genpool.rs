//! Pools of generated seeds (programs, modules, JSON files) shared by the text-level checks.
//! Deterministic: built once from fixed tapes.

use std::sync::OnceLock;

pub fn programs() -> &'static Vec<String> {
    static P: OnceLock<Vec<String>> = OnceLock::new();
    P.get_or_init(Vec::new)
}

pub fn modules() -> &'static Vec<String> {
    static P: OnceLock<Vec<String>> = OnceLock::new();
    P.get_or_init(Vec::new)
}

pub fn jsons() -> &'static Vec<String> {
    static P: OnceLock<Vec<String>> = OnceLock::new();
    P.get_or_init(Vec::new)
}
