//! C09 - for_while iterates 0,1,2,... and stops at the first Left.

use std::collections::HashMap;

use serde_json::json;

use crate::checks::c01::check_maps;
use crate::checks::common::*;
use crate::eval;
use crate::gen::{Gen, GenCfg, Generated};
use crate::mb::*;
use crate::model::*;
use crate::render::{self, Style};
use crate::run::{Ctx, Failure, Kind, PropertyDef, Stream, Tier};
use crate::tape::{digest, splitmix, Tape};

#[derive(Clone, Copy, Debug, PartialEq, Eq)]
enum Body {
    OrderRecording,
    ContextChecking,
    Poisoned,
    EarlyLeftValue,
    UnitAccumulator,
    PairAccumulator,
}
const BODIES: [Body; 6] = [Body::OrderRecording, Body::ContextChecking, Body::Poisoned, Body::EarlyLeftValue, Body::UnitAccumulator, Body::PairAccumulator];

/// statements that bind `w: u32` to the counter `i` of the given width, widened through casts / pads
fn widen(width: u16) -> Vec<Stmt> {
    match width {
        1 => vec![let_("w", u(32), jet("left_pad_low_1_32", vec![var("i")]))],
        2 => vec![
            let_("w4", u(4), cast(Ty::Tuple(vec![u(2), u(2)]), tuple(vec![int(0, 2), var("i")]))),
            let_("w8", u(8), cast(Ty::Tuple(vec![u(4), u(4)]), tuple(vec![int(0, 4), var("w4")]))),
            let_("w", u(32), jet("left_pad_low_8_32", vec![var("w8")])),
        ],
        4 => vec![let_("w8", u(8), cast(Ty::Tuple(vec![u(4), u(4)]), tuple(vec![int(0, 4), var("i")]))), let_("w", u(32), jet("left_pad_low_8_32", vec![var("w8")]))],
        8 => vec![let_("w", u(32), jet("left_pad_low_8_32", vec![var("i")]))],
        16 => vec![let_("w", u(32), jet("left_pad_low_16_32", vec![var("i")]))],
        _ => unreachable!(),
    }
}

/// acc' = acc * 33 + w + 1 (mod 2^32), bound to `next`
fn record_step() -> Vec<Stmt> {
    vec![
        let_("p", u(64), jet("multiply_32", vec![var("acc"), int(33, 32)])),
        let_("lo", u(32), jet("rightmost_64_32", vec![var("p")])),
        let_pat(Pat::Tuple(vec![Pat::Ignore, pid("s1")]), Ty::Tuple(vec![Ty::Bool, u(32)]), jet("add_32", vec![var("lo"), var("w")])),
        let_pat(Pat::Tuple(vec![Pat::Ignore, pid("next")]), Ty::Tuple(vec![Ty::Bool, u(32)]), jet("increment_32", vec![var("s1")])),
    ]
}

pub struct Case {
    width: u16,
    /// exit iteration; None = never
    exit: Option<u32>,
    body: Body,
}

fn build(case: &Case, salt: u64, t: &mut Tape) -> (Generated, String) {
    let cw = Ty::UInt(case.width);
    let exit_test = |stmts: &mut Vec<Stmt>| -> Expr {
        // bool: is this the exit iteration?
        match case.exit {
            Some(x) => {
                // in a quarter of the cases the exit iteration is a template parameter read inside the body
                let k = if salt % 4 == 1 { Expr::Param("EXIT".into()) } else { int(x as u128, 32) };
                stmts.push(let_("stop", Ty::Bool, jet("eq_32", vec![var("w"), k])));
                var("stop")
            }
            None => Expr::Bool(false),
        }
    };
    let ctx_val = (salt % 200 + 17) as u128;
    let (acc_ty, b_ty, ctx_ty, init, ctx_expr, body): (Ty, Ty, Ty, Expr, Expr, Expr) = match case.body {
        Body::OrderRecording | Body::ContextChecking | Body::Poisoned | Body::EarlyLeftValue => {
            let mut stmts = widen(case.width);
            if case.body == Body::ContextChecking {
                stmts.push(assert_(jet("eq_8", vec![var("ctx"), int(ctx_val, 8)])));
            }
            if case.body == Body::Poisoned {
                // any iteration after the exit point panics
                let limit = case.exit.unwrap_or(u32::MAX);
                stmts.push(assert_(jet("le_32", vec![var("w"), int(limit as u128, 32)])));
            }
            stmts.extend(record_step());
            let stop = exit_test(&mut stmts);
            let left_val = if case.body == Body::EarlyLeftValue { jet("complement_32", vec![var("next")]) } else { var("next") };
            let res = match_bool(stop, Expr::Left(Box::new(left_val)), Expr::Right(Box::new(var("next"))));
            (u(32), u(32), u(8), int(5, 32), int(ctx_val, 8), block(stmts, Some(res)))
        }
        Body::UnitAccumulator => {
            let mut stmts = widen(case.width);
            let stop = exit_test(&mut stmts);
            let res = match_bool(stop, Expr::Left(Box::new(var("w"))), Expr::Right(Box::new(Expr::Tuple(vec![]))));
            (Ty::unit(), u(32), Ty::unit(), Expr::Tuple(vec![]), Expr::Tuple(vec![]), block(stmts, Some(res)))
        }
        Body::PairAccumulator => {
            // acc = (count: u8, last: u16); ctx = (u8, bool) passed through unchanged and returned on exit
            let at = Ty::Tuple(vec![u(8), u(16)]);
            let ct = Ty::Tuple(vec![u(8), Ty::Bool]);
            let mut stmts = widen(case.width);
            stmts.push(let_pat(Pat::Tuple(vec![pid("n"), Pat::Ignore]), at.clone(), var("acc")));
            stmts.push(let_pat(Pat::Tuple(vec![Pat::Ignore, pid("n1")]), Ty::Tuple(vec![Ty::Bool, u(8)]), jet("increment_8", vec![var("n")])));
            stmts.push(let_("last", u(16), jet("rightmost_32_16", vec![var("w")])));
            let stop = exit_test(&mut stmts);
            let res = match_bool(stop, Expr::Left(Box::new(var("ctx"))), Expr::Right(Box::new(tuple(vec![var("n1"), var("last")]))));
            (at, ct.clone(), ct, tuple(vec![int(0, 8), int(0, 16)]), tuple(vec![int(ctx_val, 8), Expr::Bool(true)]), block(stmts, Some(res)))
        }
    };
    let rt = Ty::either(b_ty.clone(), acc_ty.clone());
    // the loop function's name: plain, or a builtin word with a suffix; its signature: written out,
    // or through user-defined aliases
    let fname = ["body", "for_while_body", "fold_step", "match_exit", "into_acc", "unwrap_or_next", "step1", "assert_next"][(salt % 8) as usize];
    let use_alias = salt % 3 == 0;
    let mut items = vec![];
    let (acc_pty, cw_pty) = if use_alias {
        items.push(Item::Alias("Acc".into(), acc_ty.clone()));
        items.push(Item::Alias("Counter".into(), cw.clone()));
        (Ty::Alias("Acc".into(), Box::new(acc_ty.clone())), Ty::Alias("Counter".into(), Box::new(cw.clone())))
    } else {
        (acc_ty.clone(), cw.clone())
    };
    let f = func(fname, vec![("acc", acc_pty), ("ctx", ctx_ty.clone()), ("i", cw_pty)], rt.clone(), body);
    items.push(f);
    let mut stmts = vec![let_("r", rt.clone(), Expr::Call(CallName::ForWhile(fname.into()), vec![init, ctx_expr]))];
    let mut g = Gen::new(t, GenCfg { max_holes: 64, ..GenCfg::general() });
    g.observe(&var("r"), &rt, &mut stmts, 0);
    items.push(main_fn(stmts));
    let prog = Program { items };
    let n_holes = count_holes(&prog);
    let mut pv = vec![false; n_holes];
    let perturbed = salt % 6 == 0 && n_holes > 0;
    if perturbed {
        pv[(salt as usize / 6) % n_holes] = true;
    }
    let params: Vec<(String, Val, Ty)> = match case.exit {
        Some(x) if salt % 4 == 1 => vec![("EXIT".to_string(), Val::uint(32, x as u128), u(32))],
        _ => vec![],
    };
    let pm: HashMap<String, Val> = params.iter().map(|(n, v, _)| (n.clone(), v.clone())).collect();
    let (filled, verdict) = eval::fill_holes(&prog, &HashMap::new(), &pm, pv);
    let gen = Generated { prog: filled, witnesses: vec![], params, labels: Default::default(), intended_verdict: verdict, n_holes, perturbed };
    // every other program in a varied layout (white space and comments inside `for_while::< f >` too)
    let style = if salt % 2 == 0 { Style::canonical() } else { Style::from_seed(salt) };
    let text = render::render(&gen.prog, &style);
    (gen, text)
}

fn cases(tier: Tier) -> &'static Vec<(u16, Option<u32>)> {
    static Q: std::sync::OnceLock<Vec<(u16, Option<u32>)>> = std::sync::OnceLock::new();
    static T: std::sync::OnceLock<Vec<(u16, Option<u32>)>> = std::sync::OnceLock::new();
    let make = |with16: bool| {
        let mut v = vec![];
        for w in [1u16, 2, 4, 8] {
            for x in 0..(1u32 << w) {
                v.push((w, Some(x)));
            }
            v.push((w, None));
        }
        if with16 {
            for x in [0u32, 1, 2, 255, 256, 257, 32767, 32768, 65534, 65535] {
                v.push((16, Some(x)));
            }
            v.push((16, None));
            for k in 0..64u64 {
                v.push((16, Some((splitmix(k) % 65536) as u32)));
            }
        } else {
            // the quick tier still visits width 16 at a few early exits (cheap) and once without exit
            for x in [0u32, 1, 2, 255, 256, 257, 32767, 32768, 65534, 65535] {
                v.push((16, Some(x)));
            }
            v.push((16, None));
        }
        v
    };
    match tier {
        Tier::Quick => Q.get_or_init(|| make(false)),
        Tier::Thorough => T.get_or_init(|| make(true)),
    }
}

fn e_loop(i: u64, ctx: &mut Ctx) -> Result<(), Failure> {
    let cs = cases(ctx.tier);
    let (width, exit) = cs[(i as usize) / BODIES.len()];
    let body = BODIES[(i as usize) % BODIES.len()];
    let case = Case { width, exit, body };
    let mut tape = Tape::new(vec![]);
    let (g, text) = build(&case, splitmix(i) % 997, &mut tape);
    require_well_typed(&g, &text)?;
    ctx.label(&format!("body:{body:?}"));
    ctx.label(&format!("width:{width}"));
    ctx.label(if exit.is_none() { "exit:never" } else { "exit:some" });
    let (ok, fails) = check_maps(&g, &text, &[HashMap::new()], ctx, "c09", &[false])?;
    if fails > 0 {
        ctx.label("run-fails");
    }
    if ok > 0 {
        ctx.label("run-succeeds");
    }
    if exit.map_or(true, |x| x >= 1) {
        ctx.nontrivial(digest(&[text.as_bytes()]));
    }
    ctx.sample(text.len() as u64, || json!({"counter_width": width, "exit_iteration": exit, "body": format!("{body:?}"), "program": truncate(&text, 1000)}));
    Ok(())
}

pub fn streams() -> Vec<Stream> {
    vec![Stream { name: "loops", kind: Kind::Enum { count: |t: Tier| (cases(t).len() * BODIES.len()) as u64, complete: |_| true, f: e_loop }, isolate: false }]
}

pub fn def() -> PropertyDef {
    PropertyDef {
        id: "C09",
        rule: "enumerated: counter width n in {1,2,4,8} x every exit iteration t in 0..2^n-1 and `never` (complete), plus width 16 at t in {0,1,2,255,256,257,32767,32768,65534,65535,never} (thorough: + 64 pseudo-random exits; sampled, not exhaustive) x loop bodies {order-recording acc' = acc*33+i+1, context-checking assert!(ctx == C) every iteration, poisoned assert!(i <= t) so any iteration after the exit panics, early-left-value Left(!acc'), unit accumulator returning Left(i), pair accumulator (count, last) returning the context on exit}; sub-byte counters are widened through casts; in a quarter of the cases the exit iteration is `param::EXIT` read inside the loop body; every other program is rendered in a varied layout; the loop function's name is plain or a builtin word with a suffix (for_while_body, fold_step, ...), and a third of the signatures go through user-defined aliases. Oracle: the reference interpreter's loop (i = 0,1,2,... ; first Left stops; Right(acc) after 2^n iterations); the program asserts the whole Either result (one constant deliberately wrong in 1/6 of the cases) and its verdict must equal the interpreter's. evaluations = program executions. Non-trivial = exit iteration >= 1 or never (>= 2 iterations run); distinct by program text. exhaustive refers to the widths 1,2,4,8 grid; width 16 is sampled.",
        assumptions: &[],
        streams,
        health: &[],
    }
}
