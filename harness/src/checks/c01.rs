//! C01 - the compiled program behaves as the source semantics prescribe.

use serde_json::json;

use crate::checks::common::*;
use crate::gen::{self, GenCfg, Generated};
use crate::pipe;
use crate::render::{self, Style};
use crate::run::{Ctx, Failure, Kind, PropertyDef, Stream, Tier};
use crate::tape::{digest, Tape};

/// Differential between interpreter and compiled program over all assignments of the case.
pub fn behaviour(t: &mut Tape, g: &Generated, text: &str, ctx: &mut Ctx, what: &str, debugs: &[bool]) -> Result<(usize, usize), Failure> {
    let (assigns, exhaustive) = assignments(t, g, 4096, 8);
    if exhaustive && g.witnesses.len() > 0 {
        ctx.label("witness-space:exhaustive");
    }
    check_maps(g, text, &assigns, ctx, what, debugs)
}

/// The same differential over an explicit list of witness assignments.
pub fn check_maps(g: &Generated, text: &str, assigns: &[std::collections::HashMap<String, crate::model::Val>], ctx: &mut Ctx, what: &str, debugs: &[bool]) -> Result<(usize, usize), Failure> {
    let env = pipe::dummy_env();
    let pm = g.param_map();
    let (mut n_ok, mut n_fail) = (0usize, 0usize);
    for &debug in debugs {
        let c = compile(text, to_arguments(g), debug, what)?;
        for wm in assigns {
            let Some(exp) = expected(&g.prog, wm, &pm)? else {
                ctx.exclude("no-reference-for-jet-or-budget");
                continue;
            };
            ctx.evals(1);
            let wj = wit_json(g, wm);
            let out = pipe::satisfy_and_run(&c.program, &c.info, to_witness_values(g, wm), None, &env);
            let got = judge(&out, what, text, &wj, debug)?;
            if got != exp {
                let sig = if exp == Verdict::Success { "expected-success-got-failure" } else { "expected-panic-got-success" };
                return Err(Failure::new(
                    format!("{what}:verdict:{sig}"),
                    format!(
                        "source semantics say {:?} but the compiled program {:?} ({})\n--- program (debug={debug}) ---\n{}\n--- witness ---\n{}",
                        exp,
                        got,
                        out.brief(),
                        truncate(text, 3000),
                        wj
                    ),
                )
                .with(json!({"program": text, "witness": wj, "debug": debug, "expected": format!("{exp:?}"), "observed": out.brief()})));
            }
            match exp {
                Verdict::Success => n_ok += 1,
                Verdict::Fails => n_fail += 1,
            }
        }
    }
    Ok((n_ok, n_fail))
}

pub fn one_case(t: &mut Tape, ctx: &mut Ctx, cfg: GenCfg, what: &str) -> Result<(), Failure> {
    let g = gen::generate(t, cfg);
    let style = Style::from_seed(t.next() as u64);
    let text = render::render(&g.prog, &style);
    require_well_typed(&g, &text)?;
    count_labels(ctx, &g);
    let (n_ok, n_fail) = behaviour(t, &g, &text, ctx, what, &[false, true])?;
    let forms = g.labels.keys().filter(|k| k.starts_with("e:")).count();
    if n_ok > 0 {
        ctx.label("verdict:some-success");
    }
    if n_fail > 0 {
        ctx.label("verdict:some-failure");
    }
    if !g.witnesses.is_empty() && g.n_holes > 0 && ((n_ok > 0 && n_fail > 0) || forms >= 4) {
        ctx.nontrivial(digest(&[text.as_bytes()]));
    }
    ctx.sample(text.len() as u64, || json!({"program": truncate(&text, 1500), "witnesses": wit_json(&g, &g.wit_map()), "style": style.describe(), "runs_ok": n_ok, "runs_failing": n_fail}));
    Ok(())
}

fn s_general(t: &mut Tape, ctx: &mut Ctx) -> Result<(), Failure> {
    one_case(t, ctx, GenCfg::general(), "c01")
}

fn s_large(t: &mut Tape, ctx: &mut Ctx) -> Result<(), Failure> {
    one_case(t, ctx, GenCfg::large(), "c01")
}

fn s_small(t: &mut Tape, ctx: &mut Ctx) -> Result<(), Failure> {
    one_case(t, ctx, GenCfg::small(), "c01")
}

pub fn streams() -> Vec<Stream> {
    vec![
        Stream { name: "general", kind: Kind::Tape { cases: |t: Tier| t.pick(3_000, 80_000), max_len: 600, f: s_general }, isolate: false },
        Stream { name: "large", kind: Kind::Tape { cases: |t: Tier| t.pick(300, 6_000), max_len: 2000, f: s_large }, isolate: false },
        Stream { name: "small", kind: Kind::Tape { cases: |t: Tier| t.pick(3_000, 80_000), max_len: 300, f: s_small }, isolate: false },
    ]
}

pub fn def() -> PropertyDef {
    PropertyDef {
        id: "C01",
        rule: "programs = type-directed generator (all expression forms, all type constructors, helper / fold / loop functions, aliases, jets with native reference, casts, dbg!, patterns with shadowing) decoded from a proptest choice tape (streams general: depth 4 / 70 nodes, small: depth 3 / 40 nodes, large: depth 5 / 220 nodes), rendered with varied layout; each program is self-checking (observation holes filled by the reference interpreter under the intended witness assignment, one constant deliberately wrong in ~20 % of the programs); x witness assignments (all when the witness space has <= 4096 points, else intended + boundary neighbours + 8 random) x debug symbols {off, on}. Oracle: reference interpreter verdict == (decode ok && Bit Machine ok on both the satisfied and the decoded program); any rejection / error / panic / CMR mismatch is a violation. evaluations = program x witness x debug executions. Non-trivial = >= 1 witness and >= 1 observation and (both verdicts occur among the assignments or >= 4 distinct expression forms); distinct by digest of the rendered text.",
        assumptions: &["jets are trusted to implement their specification (closed forms validated against direct jet execution in C13)", "programs larger than the generator's fuel bound are not explored"],
        streams,
        health: &[
            ("general", "e:match-either", 5), ("general", "e:cast", 5), ("general", "e:fold", 5), ("general", "e:for_while", 5), ("general", "e:jet", 5),
            ("general", "e:call", 5), ("general", "e:unwrap_left", 5), ("general", "e:witness", 300), ("general", "verdict:some-failure", 50), ("general", "verdict:some-success", 300),
        ],
    }
}
