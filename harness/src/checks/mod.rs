pub mod c06;
pub mod c20;
pub mod genpool;

use crate::run::PropertyDef;

pub fn all() -> Vec<PropertyDef> {
    vec![c06::def(), c20::def()]
}
