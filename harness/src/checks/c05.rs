//! C05 - satisfy type-checks witnesses and delivers each value to its name.

use std::collections::HashMap;

use serde_json::json;

use crate::checks::common::*;
use crate::conv;
use crate::gen::{self, cast_partner, GenCfg};
use crate::layout;
use crate::model::{Ty, Val};
use crate::pipe::{self, Outcome};
use crate::render::{self, Style};
use crate::run::{Ctx, Failure, Kind, PropertyDef, Stream, Tier};
use crate::tape::{digest, Tape};
use crate::valgen::{self, TyCfg};

fn s_maps(t: &mut Tape, ctx: &mut Ctx) -> Result<(), Failure> {
    let g = gen::generate(t, GenCfg { max_holes: 40, ..GenCfg::small() });
    let style = Style::from_seed(t.next() as u64);
    let text = render::render(&g.prog, &style);
    require_well_typed(&g, &text)?;
    if g.witnesses.is_empty() {
        ctx.label("no-witness");
    }
    ctx.label(&format!("witnesses:{}", match g.witnesses.len() { 0 => "0", 1 => "1", 2 => "2", 3..=4 => "3-4", 5..=8 => "5-8", _ => "9+" }));
    if g.witnesses.iter().any(|(_, _, ty)| ty.size() >= 3) {
        ctx.label("composite-witness-type");
    }
    let env = pipe::dummy_env();
    let c = compile(&text, to_arguments(&g), t.bool(), "c05")?;
    let pm = g.param_map();
    let declared: HashMap<String, Ty> = g.witnesses.iter().map(|(n, _, ty)| (n.clone(), ty.clone())).collect();
    let n_maps = 6;
    for k in 0..n_maps {
        // build a supplied map: (name, value, type it is supplied at)
        let mut supplied: Vec<(String, Val, Ty)> = g.witnesses.iter().map(|(n, v, ty)| (n.clone(), v.clone(), ty.clone())).collect();
        let mut what: Vec<&'static str> = vec![];
        let n_ops = if k == 0 { 0 } else { 1 + t.index(2) };
        for _ in 0..n_ops {
            match t.weighted(&[2, 2, 3, 2, 3, 3, 2]) {
                6 => {
                    // the same value at a type that differs only where the value shows nothing
                    // (payload of None, absent side of an Either, element type of an empty list)
                    if !supplied.is_empty() {
                        let i = t.index(supplied.len());
                        let (n, v, ty) = supplied[i].clone();
                        if let Some(other) = valgen::evidence_free_retype(t, &v, &ty) {
                            supplied[i] = (n, v, other);
                            what.push("same-value-other-type");
                        }
                    }
                }
                0 => {
                    if !supplied.is_empty() {
                        let i = t.index(supplied.len());
                        supplied.remove(i);
                        what.push("drop-name");
                    }
                }
                1 => {
                    let ty = valgen::gen_ty(t, &TyCfg::SMALL, 1);
                    let v = valgen::gen_val(t, &ty);
                    supplied.push((format!("EXTRA{}", supplied.len()), v, ty));
                    what.push("extra-name");
                }
                2 => {
                    // same layout, different type
                    if !supplied.is_empty() {
                        let i = t.index(supplied.len());
                        let (n, v, ty) = supplied[i].clone();
                        if let Some(other) = cast_partner(t, &ty) {
                            if let Some(v2) = layout::cast(&v, &ty, &other) {
                                supplied[i] = (n, v2, other);
                                what.push("same-layout-other-type");
                            }
                        }
                    }
                }
                3 => {
                    if !supplied.is_empty() {
                        let i = t.index(supplied.len());
                        let ty = valgen::gen_ty(t, &TyCfg::SMALL, 1);
                        let v = valgen::gen_val(t, &ty);
                        supplied[i] = (supplied[i].0.clone(), v, ty);
                        what.push("other-type");
                    }
                }
                4 => {
                    if supplied.len() >= 2 {
                        let i = t.index(supplied.len());
                        let j = (i + 1 + t.index(supplied.len() - 1)) % supplied.len();
                        let (vi, ti) = (supplied[i].1.clone(), supplied[i].2.clone());
                        let (vj, tj) = (supplied[j].1.clone(), supplied[j].2.clone());
                        supplied[i].1 = vj;
                        supplied[i].2 = tj;
                        supplied[j].1 = vi;
                        supplied[j].2 = ti;
                        what.push("permute");
                    }
                }
                _ => {
                    if !supplied.is_empty() {
                        let i = t.index(supplied.len());
                        let ty = supplied[i].2.clone();
                        supplied[i].1 = valgen::gen_val(t, &ty);
                        what.push("change-value");
                    }
                }
            }
        }
        for w in &what {
            ctx.label(&format!("map:{w}"));
        }
        // (a) expected acceptance, computed from the model only
        let mismatch: Vec<String> = supplied
            .iter()
            .filter(|(n, _, ty)| declared.get(n).map_or(false, |d| !d.same(ty)))
            .map(|(n, _, ty)| format!("{n}: supplied at {ty}, declared {}", declared[n]))
            .collect();
        let all_supplied = declared.keys().all(|n| supplied.iter().any(|(m, _, _)| m == n));
        let wv = conv::witness_values(&supplied);
        let wj = json!(supplied.iter().map(|(n, v, ty)| format!("{n} = {}: {ty}", render::val_text(v, ty))).collect::<Vec<_>>());
        ctx.evals(1);
        let out = pipe::satisfy_and_run(&c.program, &c.info, wv, None, &env);
        let ctxt = || format!("\n--- program ---\n{}\n--- supplied map ({}) ---\n{}", truncate(&text, 2500), what.join("+"), wj);
        match (&out, mismatch.is_empty()) {
            (Outcome::SatisfyErr(_), false) => {
                ctx.label("rejected-as-expected");
            }
            (Outcome::SatisfyErr(e), true) => {
                return Err(Failure::new("c05:satisfy-rejects-consistent-map", format!("every supplied declared name has its declared type, but satisfy failed: {e}{}", ctxt())).with(json!({"program": text, "map": wj})));
            }
            (_, false) if !matches!(out, Outcome::Panicked { .. }) => {
                return Err(Failure::new(
                    "c05:ill-typed-witness-accepted",
                    format!("satisfy accepted a map in which {} ({}){}", mismatch.join("; "), out.brief(), ctxt()),
                )
                .with(json!({"program": text, "map": wj, "mismatch": mismatch})));
            }
            _ => {
                // accepted (or panicked): validity + delivery
                let got = judge(&out, "c05", &text, &wj, false)?;
                if all_supplied {
                    let wm: HashMap<String, Val> = supplied.iter().filter(|(n, _, _)| declared.contains_key(n)).map(|(n, v, _)| (n.clone(), v.clone())).collect();
                    if let Some(exp) = expected(&g.prog, &wm, &pm)? {
                        if exp != got {
                            return Err(Failure::new(
                                "c05:value-not-delivered-to-its-name",
                                format!("with each value under its own name the source semantics say {exp:?}, the program {got:?} ({}){}", out.brief(), ctxt()),
                            )
                            .with(json!({"program": text, "map": wj})));
                        }
                        ctx.label(if exp == Verdict::Success { "delivered:success" } else { "delivered:fails" });
                    }
                } else {
                    ctx.label("missing-names-ok");
                }
            }
        }
        if g.witnesses.len() >= 2 && !what.is_empty() {
            ctx.nontrivial(digest(&[text.as_bytes(), wj.to_string().as_bytes()]));
        }
    }
    ctx.sample(text.len() as u64, || json!({"program": truncate(&text, 1200), "declared": g.witnesses.iter().map(|(n, _, ty)| format!("{n}: {ty}")).collect::<Vec<_>>()}));
    Ok(())
}

pub fn streams() -> Vec<Stream> {
    vec![Stream { name: "maps", kind: Kind::Tape { cases: |t: Tier| t.pick(60_000, 600_000), max_len: 400, f: s_maps }, isolate: false }]
}

pub fn def() -> PropertyDef {
    PropertyDef {
        id: "C05",
        rule: "generated self-checking programs with 0..8 witnesses of generated types x 6 supplied maps built from the intended one by 0-2 of: drop a name, add an undeclared name, replace a value by the same bits at a layout-equal different type (cast table), replace by a value of an unrelated type, keep the value but name a type that differs only where the value shows nothing (payload type of None, absent side of an Either, element type of an empty list / array), permute values among names, change a value. Oracle: (a) satisfy is Err iff some supplied declared name carries a value whose type differs nominally from the declared type (computed from the model); (b) when accepted with all names supplied, the run verdict equals the reference interpreter on exactly that name -> value map (so every value reached its own name; programs compare witness-derived values with constants); (c) validity predicate of C02 (witness node typing, CMR, decode) on everything accepted; maps with missing names are only required to be accepted and valid. evaluations = satisfy calls. Non-trivial = >= 2 witnesses and a non-identity map transformation; distinct by digest of program + map.",
        assumptions: &["missing witnesses are zero-filled by simplicity-lang 0.4.0; the property does not demand an error for them"],
        streams,
        health: &[("maps", "rejected-as-expected", 100), ("maps", "map:permute", 30), ("maps", "map:same-layout-other-type", 30)],
    }
}
