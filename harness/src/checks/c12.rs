//! C12 - template instantiation equals literal substitution.

use std::collections::{BTreeMap, HashMap};

use serde_json::json;

use crate::checks::c01::check_maps;
use crate::checks::common::*;
use crate::conv;
use crate::gen::{self, cast_partner, GenCfg, Generated};
use crate::layout;
use crate::model::*;
use crate::pipe;
use crate::render::{self, Style};
use crate::run::{Ctx, Failure, Kind, PropertyDef, Stream, Tier};
use crate::tape::{digest, Tape};
use crate::valgen::{self, TyCfg};

/// Replace every `param::NAME` by the literal text of its argument.
fn substitute(p: &Program, args: &[(String, Val, Ty)]) -> Program {
    let mut q = p.clone();
    for it in q.items.iter_mut() {
        if let Item::Fn(f) = it {
            walk_expr_mut(&mut f.body, &mut |e| {
                if let Expr::Param(n) = e {
                    if let Some((_, v, ty)) = args.iter().find(|(m, _, _)| m == n) {
                        *e = render::val_to_expr(v, ty, false);
                    }
                }
            });
        }
    }
    q
}

fn s_params(t: &mut Tape, ctx: &mut Ctx) -> Result<(), Failure> {
    let g = gen::generate(t, GenCfg { params: true, ..GenCfg::small() });
    let style = Style::from_seed(t.next() as u64);
    let text = render::render(&g.prog, &style);
    require_well_typed(&g, &text)?;
    let tmpl = match pipe::new_template(&text) {
        Ok(Ok(t)) => t,
        Ok(Err(e)) => return Err(Failure::new("c12:rejected", format!("generated program rejected: {}\n{}", pipe::last_line(&e), truncate(&text, 2500))).with(json!({"program": text}))),
        Err(p) => return Err(Failure::new(format!("panic:{}", crate::run::panic_site(&p)), format!("TemplateProgram::new panicked: {p}"))),
    };
    // (a) parameters() == recorded occurrences
    ctx.evals(1);
    let reported: BTreeMap<String, String> = tmpl.parameters().iter().map(|(n, ty)| (n.as_inner().to_string(), ty.to_string())).collect();
    let recorded: BTreeMap<String, String> = g.params.iter().map(|(n, _, ty)| (n.clone(), conv::to_resolved(ty).to_string())).collect();
    if reported != recorded {
        return Err(Failure::new("c12:parameters-differ-from-occurrences", format!("parameters() reports {reported:?}, the program uses {recorded:?}\n{}", truncate(&text, 2500))).with(json!({"program": text})));
    }
    if g.params.is_empty() {
        ctx.label("no-parameter");
    }
    // (b) argument maps
    let debug = t.bool();
    for k in 0..5 {
        let mut args: Vec<(String, Val, Ty)> = g.params.clone();
        let mut expect_err = false;
        let what = match k {
            0 => "exact",
            1 => {
                // other values of the same types
                for a in args.iter_mut() {
                    a.1 = valgen::gen_val(t, &a.2);
                }
                "exact-other-values"
            }
            2 => {
                if args.is_empty() {
                    continue;
                }
                let i = t.index(args.len());
                args.remove(i);
                expect_err = true;
                "one-missing"
            }
            3 => {
                for k in 0..1 + t.index(3) {
                    let ty = valgen::gen_ty(t, &TyCfg::SMALL, 1);
                    let v = valgen::gen_val(t, &ty);
                    args.push((format!("EXTRA{k}"), v, ty));
                }
                "extra-name"
            }
            _ => {
                if args.is_empty() {
                    continue;
                }
                let i = t.index(args.len());
                let (n, v, ty) = args[i].clone();
                // a third of the time: the same value at a type that differs only where the value
                // shows nothing (payload of None, absent side of an Either, element type of an empty list)
                if t.index(3) == 0 {
                    if let Some(other) = valgen::evidence_free_retype(t, &v, &ty) {
                        args[i] = (n, v, other);
                        expect_err = true;
                        ctx.label("args:same-value-other-type");
                        ctx.evals(1);
                        let aj = json!(args.iter().map(|(n, v, ty)| format!("{n} = {}: {ty}", render::val_text(v, ty))).collect::<Vec<_>>());
                        let inst = pipe::instantiate(&tmpl, conv::arguments(&args), debug).map_err(|p| Failure::new(format!("panic:{}", crate::run::panic_site(&p)), format!("instantiate panicked: {p}\n{}", truncate(&text, 2500))))?;
                        if inst.is_ok() && expect_err {
                            return Err(Failure::new("c12:bad-arguments-accepted", format!("instantiate accepts an argument whose declared type differs from the parameter's type (the value itself fits both)\n--- arguments ---\n{aj}\n{}", truncate(&text, 2500))).with(json!({"program": text, "arguments": aj})));
                        }
                        ctx.label("instantiate:rejected-as-expected");
                        continue;
                    }
                }
                let same_layout = t.bool();
                let other = if same_layout { cast_partner(t, &ty) } else { Some(valgen::gen_ty(t, &TyCfg::SMALL, 1)) };
                let Some(other) = other else { continue };
                if other.same(&ty) {
                    continue;
                }
                let v2 = if same_layout { layout::cast(&v, &ty, &other).unwrap_or_else(|| valgen::gen_val(t, &other)) } else { valgen::gen_val(t, &other) };
                args[i] = (n, v2, other);
                expect_err = true;
                if same_layout {
                    "same-layout-other-type"
                } else {
                    "other-type"
                }
            }
        };
        ctx.label(&format!("args:{what}"));
        ctx.evals(1);
        let aj = json!(args.iter().map(|(n, v, ty)| format!("{n} = {}: {ty}", render::val_text(v, ty))).collect::<Vec<_>>());
        let inst = pipe::instantiate(&tmpl, conv::arguments(&args), debug).map_err(|p| Failure::new(format!("panic:{}", crate::run::panic_site(&p)), format!("instantiate panicked: {p}\n{}", truncate(&text, 2500))))?;
        match (inst, expect_err) {
            (Err(_), true) => {
                ctx.label("instantiate:rejected-as-expected");
            }
            (Ok(_), true) => {
                return Err(Failure::new("c12:bad-arguments-accepted", format!("instantiate accepted the argument map ({what}) {aj}\n{}", truncate(&text, 2500))).with(json!({"program": text, "arguments": aj})));
            }
            (Err(e), false) => {
                return Err(Failure::new("c12:consistent-arguments-rejected", format!("instantiate rejected the argument map ({what}) {aj}: {}\n{}", pipe::last_line(&e), truncate(&text, 2500))).with(json!({"program": text, "arguments": aj})));
            }
            (Ok(_), false) => {
                // (c) behaviour == literal substitution == reference interpreter
                let used: Vec<(String, Val, Ty)> = args.iter().filter(|(n, _, _)| !n.starts_with("EXTRA")).cloned().collect();
                let g_inst = Generated { params: used.clone(), ..g.clone() };
                let (maps, _) = assignments(t, &g_inst, 16, 2);
                // instantiate path (check_maps compiles with g_inst's arguments)
                check_maps(&g_inst, &text, &maps, ctx, "c12", &[debug])?;
                // substitution path
                let sub = substitute(&g.prog, &used);
                let sub_text = render::render(&sub, &Style::canonical());
                let g_sub = Generated { prog: sub, params: vec![], ..g.clone() };
                // the interpreter must agree with itself
                for m in &maps {
                    let a = expected(&g_inst.prog, m, &g_inst.param_map())?;
                    let b = expected(&g_sub.prog, m, &HashMap::new())?;
                    if a != b {
                        return Err(Failure::internal(format!("interpreter: substitution changes the verdict {a:?} vs {b:?}\n{sub_text}")));
                    }
                }
                check_maps(&g_sub, &sub_text, &maps, ctx, "c12:substituted", &[debug])?;
            }
        }
    }
    {
        let mut in_fn = false;
        let mut in_main = false;
        for it in &g.prog.items {
            if let Item::Fn(f) = it {
                let mut uses = false;
                walk_expr(&f.body, &mut |e| uses |= matches!(e, Expr::Param(_)));
                if f.name == "main" {
                    in_main |= uses;
                } else {
                    in_fn |= uses;
                }
            }
        }
        if in_fn {
            ctx.label("parameter-used-in-function");
        }
        if in_main {
            ctx.label("parameter-used-in-main");
        }
        ctx.label(&format!("parameters:{}", g.params.len().min(4)));
    }
    if g.params.iter().any(|(_, _, ty)| ty.size() >= 2) {
        ctx.label("composite-parameter");
        ctx.nontrivial(digest(&[text.as_bytes()]));
    }
    ctx.sample(text.len() as u64, || json!({"program": truncate(&text, 1200), "parameters": recorded}));
    Ok(())
}

/// One parameter name at two different types: no `parameters()` map can report both occurrences
/// with their types, so such a template must be rejected.
fn s_two_types(t: &mut Tape, ctx: &mut Ctx) -> Result<(), Failure> {
    let g = gen::generate(t, GenCfg { params: true, ..GenCfg::small() });
    if g.params.is_empty() {
        ctx.label("no-parameter");
        return Ok(());
    }
    let (name, _, ty) = g.params[t.index(g.params.len())].clone();
    let same_layout = t.bool();
    let other = if same_layout { cast_partner(t, &ty) } else { Some(valgen::gen_ty(t, &TyCfg::SMALL, 1)) };
    let Some(other) = other else { return Ok(()) };
    if other.same(&ty) {
        return Ok(());
    }
    // add `let _: OTHER = param::NAME;` at the start or the end of main, or inside a helper function
    let mut prog = g.prog.clone();
    let stmt = Stmt::Let(Pat::Ignore, other.clone(), Expr::Param(name.clone()));
    let n_fns = prog.items.iter().filter(|i| matches!(i, Item::Fn(_))).count();
    let target = t.index(n_fns);
    let at_end = t.bool();
    let mut k = 0;
    for it in prog.items.iter_mut() {
        if let Item::Fn(f) = it {
            if k == target {
                if let Expr::Block(stmts, _) = &mut f.body {
                    if at_end {
                        stmts.push(stmt.clone());
                    } else {
                        stmts.insert(0, stmt.clone());
                    }
                }
            }
            k += 1;
        }
    }
    let text = render::render(&prog, &Style::canonical());
    ctx.evals(1);
    if crate::tycheck::check_program(&prog).is_ok() {
        return Err(Failure::internal("tycheck accepts a parameter at two types"));
    }
    match pipe::new_template(&text) {
        Ok(Err(_)) => {
            ctx.label("two-types:rejected");
            ctx.nontrivial(digest(&[text.as_bytes()]));
            ctx.sample(text.len() as u64, || json!({"parameter": name, "first_type": ty.to_string(), "second_type": other.to_string()}));
            Ok(())
        }
        Ok(Ok(tmpl)) => {
            let reported: Vec<String> = tmpl.parameters().iter().map(|(n, ty)| format!("{}: {ty}", n.as_inner())).collect();
            Err(Failure::new(
                "c12:parameter-at-two-types-accepted",
                format!("`param::{name}` occurs at type {ty} and at type {other}; the template is accepted and parameters() reports {reported:?}, which cannot list both occurrences with their types\n{}", truncate(&text, 2500)),
            )
            .with(json!({"program": text})))
        }
        Err(p) => Err(Failure::new(format!("panic:{}", crate::run::panic_site(&p)), format!("TemplateProgram::new panicked: {p}"))),
    }
}

/// A parameter that only a function defined *after* `main` reads (nothing calls it): it is part of
/// the template all the same, so `parameters()` lists it and `instantiate` wants it.
fn s_after_main(t: &mut Tape, ctx: &mut Ctx) -> Result<(), Failure> {
    let with_params = t.bool();
    let g = gen::generate(t, GenCfg { params: with_params, ..GenCfg::small() });
    let ty = valgen::gen_ty(t, &TyCfg::SMALL, 1);
    let val = valgen::gen_val(t, &ty);
    let name = "LATE".to_string();
    let mut prog = g.prog.clone();
    let use_twice = t.bool();
    let mut stmts = vec![Stmt::Let(Pat::Ignore, ty.clone(), Expr::Param(name.clone()))];
    if use_twice {
        stmts.push(Stmt::Let(Pat::Ignore, ty.clone(), Expr::Param(name.clone())));
    }
    prog.items.push(Item::Fn(FnDef { name: "defined_after_main".into(), params: vec![], ret: None, body: Expr::Block(stmts, None) }));
    let style = Style::from_seed(t.next() as u64);
    let text = render::render(&prog, &style);
    ctx.evals(1);
    let tmpl = match pipe::new_template(&text) {
        Ok(Ok(tm)) => tm,
        Ok(Err(e)) => return Err(Failure::new("c12:rejected", format!("a well-typed program with a function after main is rejected: {}\n{}", pipe::last_line(&e), truncate(&text, 2500))).with(json!({"program": text}))),
        Err(p) => return Err(Failure::new(format!("panic:{}", crate::run::panic_site(&p)), format!("TemplateProgram::new panicked: {p}"))),
    };
    let reported: BTreeMap<String, String> = tmpl.parameters().iter().map(|(n, ty)| (n.as_inner().to_string(), conv::from_resolved(ty).to_string())).collect();
    if reported.get(&name) != Some(&ty.to_string()) {
        return Err(Failure::new("c12:parameters-differ", format!("`param::{name}` of type {ty} is read in a function defined after main; parameters() reports {reported:?}\n{}", truncate(&text, 2500))).with(json!({"program": text})));
    }
    // without it: Err; with it: Ok
    let base: Vec<(String, Val, Ty)> = g.params.clone();
    ctx.evals(1);
    let without = pipe::instantiate(&tmpl, conv::arguments(&base), false).map_err(|p| Failure::new(format!("panic:{}", crate::run::panic_site(&p)), format!("instantiate panicked: {p}")))?;
    if without.is_ok() {
        return Err(Failure::new("c12:bad-arguments-accepted", format!("instantiate succeeds although the argument for `param::{name}` (read in a function after main) is missing\n{}", truncate(&text, 2500))).with(json!({"program": text})));
    }
    let mut full = base;
    full.push((name.clone(), val, ty.clone()));
    ctx.evals(1);
    let with = pipe::instantiate(&tmpl, conv::arguments(&full), false).map_err(|p| Failure::new(format!("panic:{}", crate::run::panic_site(&p)), format!("instantiate panicked: {p}")))?;
    if let Err(e) = with {
        return Err(Failure::new("c12:consistent-arguments-rejected", format!("instantiate fails with all parameters supplied: {}\n{}", pipe::last_line(&e), truncate(&text, 2500))).with(json!({"program": text})));
    }
    ctx.label("after-main:ok");
    ctx.nontrivial(digest(&[text.as_bytes()]));
    ctx.sample(text.len() as u64, || json!({"program": truncate(&text, 900), "late_parameter_type": ty.to_string()}));
    Ok(())
}

pub fn streams() -> Vec<Stream> {
    vec![Stream { name: "two-types", kind: Kind::Tape { cases: |t: Tier| t.pick(20_000, 200_000), max_len: 420, f: s_two_types }, isolate: false }, Stream { name: "after-main", kind: Kind::Tape { cases: |t: Tier| t.pick(3_000, 40_000), max_len: 420, f: s_after_main }, isolate: false }, Stream { name: "params", kind: Kind::Tape { cases: |t: Tier| t.pick(8_000, 100_000), max_len: 420, f: s_params }, isolate: false }]
}

pub fn def() -> PropertyDef {
    PropertyDef {
        id: "C12",
        rule: "generated self-checking programs with 0..4 `param::NAME` occurrences of generated types in main and in functions (a name may occur several times at one type) x argument maps {exact, exact with other values, one missing, extra name, one value of a layout-equal other type / of an unrelated type} x witness assignments (all when <= 16, else sampled) x debug on/off. Oracle: parameters() equals the set of (name, type) the generator recorded; instantiate is Err iff a recorded parameter is missing or mistyped; when Ok, the verdict on every assignment equals the reference interpreter's AND equals that of the program text in which each param::NAME is replaced by the literal text of its argument (own value printer), both through the full pipeline. evaluations = instantiate decisions + executions. Non-trivial = >= 1 parameter of a composite type; distinct by digest.",
        assumptions: &["stream two-types: a template that uses one parameter name at two different types must be rejected, because parameters() could not report both occurrences with their types"],
        streams,
        health: &[("params", "composite-parameter", 100), ("params", "instantiate:rejected-as-expected", 300)],
    }
}
