//! C20 - compile errors quote the source lines they point at.

use serde_json::json;
use simfony::parse::ParseFromStr;
use simfony::TemplateProgram;

use crate::checks::c06::{guard, truncate};
use crate::errshape::check_error_message;
use crate::run::{catch, Ctx, Failure, Kind, PropertyDef, Stream, Tier};
use crate::seeds;
use crate::tape::{digest, Tape};
use crate::textmut;

/// Independent description of the error: Display of the underlying `Error`.
pub fn underlying_description(text: &str) -> Option<String> {
    match simfony::parse::Program::parse_from_str(text) {
        Err(rich) => Some(simfony::error::Error::from(rich).to_string()),
        Ok(p) => match simfony::ast::Program::analyze(&p) {
            Err(rich) => Some(simfony::error::Error::from(rich).to_string()),
            Ok(_) => None,
        },
    }
}

/// Re-layout a text: line ends and tabs.
pub fn relayout(t: &mut Tape, s: &str) -> (String, &'static str) {
    match t.weighted(&[3, 2, 1, 1, 1, 1, 1]) {
        6 => (format!("{}{s}", ["\n", "\n\n", "\r\n\n", "  \n\t\n", "\n \n\n"][t.index(5)]), "leading-blank-lines"),
        0 => (s.to_string(), "as-is"),
        1 => (s.replace("\r\n", "\n").replace('\n', "\r\n"), "crlf"),
        2 => {
            // mixed: every other newline becomes CRLF
            let mut out = String::new();
            let mut k = 0;
            for c in s.chars() {
                if c == '\n' {
                    k += 1;
                    if k % 2 == 0 {
                        out.push('\r');
                    }
                }
                out.push(c);
            }
            (out, "mixed-line-ends")
        }
        3 => (s.replace("    ", "\t"), "tabs"),
        4 => (format!("// ünï©ödé ✓ 日本語\n/* ✓✓ */ {s}"), "non-ascii-prefix"),
        _ => (s.trim_end_matches(['\n', '\r']).to_string(), "no-trailing-newline"),
    }
}

pub fn check_text(s: &str, ctx: &mut Ctx, layout: &str, origin: &str) -> Result<(), Failure> {
    if s.is_empty() {
        ctx.exclude("empty-file");
        return Ok(());
    }
    if let Some(g) = guard(s) {
        ctx.exclude(g);
        return Ok(());
    }
    let r = match catch(|| TemplateProgram::new(s).map(|_| ())) {
        Ok(r) => r,
        Err(p) => {
            // no message at all: the compiler panicked instead of reporting the error
            return Err(Failure::new(format!("panic:{}", crate::run::panic_site(&p)), format!("compilation panicked instead of returning an error message: {p}\n--- input ({layout}) ---\n{}", truncate(s, 1200))).with(json!({"input": s, "layout": layout})));
        }
    };
    let Err(msg) = r else {
        ctx.label("accepted");
        return Ok(());
    };
    ctx.evals(1);
    let desc = catch(|| underlying_description(s)).ok().flatten();
    match check_error_message(s, &msg, desc.as_deref()) {
        Ok(info) => {
            let multi = info.n_quoted > 1;
            let not_first = info.first_line.map_or(false, |l| l > 1);
            let odd_layout = layout != "as-is" || !s.is_ascii() || s.contains('\t') || s.contains('\r');
            ctx.label(if msg.contains("Grammar error") { "grammar-error" } else { "analysis-error" });
            if multi {
                ctx.label("multi-line-span");
            }
            if info.n_quoted == 0 {
                ctx.label("no-line-quoted");
            }
            if info.first_line == Some(1) {
                ctx.label("error-on-first-line");
            }
            if let Some(l) = info.first_line {
                let n_lines = s.split('\n').count();
                if l + info.n_quoted.max(1) - 1 >= n_lines.saturating_sub(if s.ends_with('\n') { 1 } else { 0 }) {
                    ctx.label("error-on-last-line");
                }
            }
            ctx.label(&format!("layout:{layout}"));
            if multi || not_first || odd_layout {
                ctx.nontrivial(digest(&[s.as_bytes()]));
            }
            ctx.sample(s.len() as u64, || json!({"origin": origin, "layout": layout, "input": truncate(s, 500), "message": truncate(&msg, 500)}));
            Ok(())
        }
        Err(why) => {
            let class = if why.contains("quoted as") {
                "quoted-line-differs"
            } else if why.contains("does not exist") {
                "line-number-outside-file"
            } else if why.contains("consecutive") {
                "line-numbers-not-consecutive"
            } else if why.contains("description") {
                "description-missing"
            } else {
                "message-shape"
            };
            Err(Failure::new(
                format!("errmsg:{class}"),
                format!("{why}\n--- message ---\n{}\n--- input ({layout}) ---\n{}", truncate(&msg, 1200), truncate(s, 1200)),
            )
            .with(json!({"input": s, "message": msg, "layout": layout})))
        }
    }
}

fn s_mutants(t: &mut Tape, ctx: &mut Ctx) -> Result<(), Failure> {
    let mut pool: Vec<&str> = seeds::examples().iter().map(|e| e.program.as_str()).collect();
    pool.extend(crate::checks::genpool::programs().iter().map(|s| s.as_str()));
    let a = pool[t.index(pool.len())];
    let b = pool[t.index(pool.len())];
    let (m, _) = textmut::mutate(t, a, b);
    let (m, layout) = relayout(t, &m);
    check_text(&m, ctx, layout, "token-mutant")
}

/// Rejected near-miss edits: analysis errors with real spans (single-line, multi-line, first / last line).
fn s_nearmiss(t: &mut Tape, ctx: &mut Ctx) -> Result<(), Failure> {
    let Some(e) = crate::checks::nearmiss_streams::edited(t, ctx, true)? else { return Ok(()) };
    let (m, layout) = relayout(t, &e.text);
    check_text(&m, ctx, layout, "near-miss-edit")
}

fn s_fuzztext(t: &mut Tape, ctx: &mut Ctx) -> Result<(), Failure> {
    let s = crate::fuzzglue::text_of_tape(t);
    check_text(&s, ctx, "as-is", "fuzztext")
}

pub fn streams() -> Vec<Stream> {
    vec![Stream { name: "fuzztext", kind: Kind::Tape { cases: |_| 0, max_len: 4096, f: s_fuzztext }, isolate: false }, Stream {
        name: "nearmiss",
        kind: Kind::Tape {
            cases: |t: Tier| t.pick(150_000, 3_000_000),
            max_len: 340,
            f: s_nearmiss,
        },
        isolate: false,
    }, Stream {
        name: "mutants",
        kind: Kind::Tape {
            cases: |t: Tier| t.pick(100_000, 3_000_000),
            max_len: 96,
            f: s_mutants,
        },
        isolate: false,
    }]
}

pub fn def() -> PropertyDef {
    PropertyDef {
        id: "C20",
        rule: "rejected texts = token mutants of shipped examples and generated programs (and, stream nearmiss, single typed edits of generated well-typed programs), re-laid-out with LF/CRLF/mixed line ends, tabs, non-ASCII comment prefix, missing trailing newline; oracle = validity predicate on the rendered message: `pad |`, then `N | text` lines with consecutive N inside the file each quoting source line N verbatim (split at \\n, one trailing \\r removed), then `pad |...^^^ description`, and the message ends with the Display of the underlying Error obtained independently through parse::Program::parse_from_str / ast::Program::analyze. evaluations = rejected texts checked. Non-trivial = error not on line 1, or multi-line span, or non-LF / tab / non-ASCII layout; distinct by digest of the text.",
        assumptions: &["the underline column is not checked (the property does not state it)", "texts on which the compiler panics are left to C06"],
        streams,
        health: &[("mutants", "analysis-error", 30), ("nearmiss", "analysis-error", 300), ("nearmiss", "multi-line-span", 20)],
    }
}
