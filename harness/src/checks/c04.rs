//! C04 - the front end accepts exactly the well-typed programs.

use serde_json::json;

use crate::checks::common::*;
use crate::checks::nearmiss_streams::{edited, family_cfg};
use crate::gen;
use crate::pipe;
use crate::render::{self, Style};
use crate::run::{Ctx, Failure, Kind, PropertyDef, Stream, Tier};
use crate::tape::{digest, Tape};
use crate::tycheck;

pub fn accepted(text: &str) -> Result<Result<(), String>, String> {
    pipe::new_template(text).map(|r| r.map(|_| ()))
}

fn s_edits(t: &mut Tape, ctx: &mut Ctx) -> Result<(), Failure> {
    let Some(e) = edited(t, ctx, true)? else { return Ok(()) };
    let verdict = tycheck::check_program(&e.prog);
    if let Err(why) = &verdict {
        if why.starts_with("UNSPECIFIED") {
            ctx.exclude("documentation-silent");
            return Ok(());
        }
    }
    ctx.evals(1);
    let got = match accepted(&e.text) {
        Ok(r) => r,
        Err(p) if verdict.is_ok() => {
            // a well-typed program that makes the front end panic is not accepted
            return Err(Failure::new(format!("panic:{}", crate::run::panic_site(&p)), format!("the independent checker finds this program well-typed but the front end panics: {p}\n--- program (edit {}) ---\n{}", e.kind.name(), truncate(&e.text, 3000))).with(json!({"program": e.text, "edit": e.kind.name()})));
        }
        Err(_) => {
            // ill-typed and panicking instead of rejecting: totality is C06's statement
            ctx.exclude("ill-typed program panics (reported by C06)");
            return Ok(());
        }
    };
    ctx.nontrivial(digest(&[e.text.as_bytes()]));
    let kind = e.kind.name();
    match (&verdict, &got) {
        (Ok(_), Ok(())) => {
            ctx.label("edit-well-typed-accepted");
        }
        (Err(_), Err(_)) => {
            ctx.label("edit-ill-typed-rejected");
        }
        (Ok(_), Err(msg)) => {
            return Err(Failure::new(
                format!("c04:well-typed-rejected:{kind}"),
                format!("the independent checker finds this program well-typed but the front end rejects it: {}\n--- program (edit {kind}) ---\n{}", pipe::last_line(msg), truncate(&e.text, 3000)),
            )
            .with(json!({"program": e.text, "edit": kind, "front_end": msg})));
        }
        (Err(why), Ok(())) => {
            return Err(Failure::new(
                format!("c04:ill-typed-accepted:{kind}"),
                format!("the front end accepts a program that breaks a documented static rule: {why}\n--- program (edit {kind}) ---\n{}", truncate(&e.text, 3000)),
            )
            .with(json!({"program": e.text, "edit": kind, "rule": why})));
        }
    }
    ctx.sample(e.text.len() as u64, || json!({"edit": kind, "well_typed": verdict.is_ok(), "why": verdict.as_ref().err(), "program": truncate(&e.text, 1200)}));
    Ok(())
}

fn s_family(t: &mut Tape, ctx: &mut Ctx) -> Result<(), Failure> {
    let cfg = if t.bool() { family_cfg() } else { crate::gen::GenCfg::general() };
    let g = gen::generate(t, cfg);
    let style = Style::from_seed(t.next() as u64);
    let text = render::render(&g.prog, &style);
    require_well_typed(&g, &text)?;
    count_labels(ctx, &g);
    ctx.evals(1);
    match accepted(&text) {
        Ok(Ok(())) => {}
        Ok(Err(msg)) => {
            return Err(Failure::new("c04:well-typed-rejected:generated", format!("a well-typed generated program is rejected: {}\n{}", pipe::last_line(&msg), truncate(&text, 3000))).with(json!({"program": text, "front_end": msg})));
        }
        Err(p) => {
            return Err(Failure::new(format!("panic:{}", crate::run::panic_site(&p)), format!("a well-typed generated program makes the front end panic: {p}\n{}", truncate(&text, 3000))).with(json!({"program": text})));
        }
    }
    ctx.label("family-accepted");
    if g.labels.keys().filter(|k| k.starts_with("e:")).count() >= 4 {
        ctx.nontrivial(digest(&[text.as_bytes()]));
    }
    ctx.sample(text.len() as u64, || json!({"edit": "none", "well_typed": true, "program": truncate(&text, 1200)}));
    Ok(())
}

pub fn streams() -> Vec<Stream> {
    vec![
        Stream { name: "edits", kind: Kind::Tape { cases: |t: Tier| t.pick(500_000, 10_000_000), max_len: 340, f: s_edits }, isolate: false },
        Stream { name: "family", kind: Kind::Tape { cases: |t: Tier| t.pick(30_000, 600_000), max_len: 600, f: s_family }, isolate: false },
    ]
}

pub fn def() -> PropertyDef {
    PropertyDef {
        id: "C04",
        rule: "stream family: generated well-typed programs (by construction, confirmed by the independent checker) under varied layout must be accepted. stream edits: one single typed edit (43 kinds: retype let / parameter / result / arm binder / alias / call type argument with a layout-equal, same-width or unrelated type; call, tuple, array, pattern arity +-1; array size +-1; list bound x2, /2 (down to 1), +1, 2n-1; a second read of a template parameter at another type; a function appended after main (plain, reading a witness, ill-typed); list literal filled up to a power of two; literal 2^N; binary / hex literal with one digit more or fewer; undefined / other variable; swapped statements; variable leaked out of its block; undefined function / alias / jet; reserved jets; name twice in a pattern; duplicate function; two mains / no main / main with parameter or result; witness name reused; witness inside a function; item moved below its uses; wrong fold / loop function; incompatible match arms; duplicate parameter name; final expression dropped; literal of another kind; swapped arguments; variable re-bound in a block around a use; inner name also bound in the enclosing block) applied at a tape-chosen site of a generated program; oracle = independent checker `tycheck` (written from the book and the rule list of the property), acceptance by TemplateProgram::new must equal its verdict in both directions. evaluations = acceptance decisions compared. Non-trivial = edited program (distinct by digest of the text) / family program with >= 4 expression forms.",
        assumptions: &["edits whose status the documentation leaves open (duplicate alias definitions, a parameter used at two types) are not generated", "the checker's reading of the book is the reference; it was validated on the unchanged tree and every disagreement was examined by hand (DESIGN appendix B)"],
        streams,
        health: &[("edits", "edit-well-typed-accepted", 100), ("edits", "edit-ill-typed-rejected", 200)],
    }
}
