//! C17 - names are opaque: renaming and layout never change meaning.

use std::collections::{HashMap, HashSet};

use serde_json::json;

use crate::checks::c01::check_maps;
use crate::checks::c15::AWKWARD;
use crate::checks::common::*;
use crate::gen::{self, GenCfg, Generated};
use crate::model::Val;
use crate::rename::{self, NameMap};
use crate::render::{self, Style};
use crate::run::{Ctx, Failure, Kind, PropertyDef, Stream, Tier};
use crate::tape::{digest, Tape};
use crate::textmut::KEYWORDS;

/// Every reserved word: none of these may be used as a name.
pub fn reserved() -> HashSet<&'static str> {
    let mut s: HashSet<&'static str> = KEYWORDS.iter().copied().collect();
    for w in ["Left", "Right", "Some", "None", "true", "false", "jet", "witness", "param", "list", "main"] {
        s.insert(w);
    }
    s
}

const SUFFIXES: &[&str] = &["_", "0", "9", "x", "X", "_x", "__", "s", "1_"];

fn fresh_name(t: &mut Tape, used: &mut HashSet<String>, interesting: &mut bool) -> String {
    let res = reserved();
    for _ in 0..20 {
        let cand = match t.weighted(&[4, 2, 3]) {
            0 => {
                // reserved word + suffix
                *interesting = true;
                let all: Vec<&&str> = KEYWORDS.iter().chain(["Left", "Right", "Some", "None", "true", "false", "jet", "witness", "param", "list", "main"].iter()).collect();
                format!("{}{}", all[t.index(all.len())], SUFFIXES[t.index(SUFFIXES.len())])
            }
            1 => {
                *interesting = true;
                AWKWARD[t.index(AWKWARD.len())].to_string()
            }
            _ => crate::checks::c15::gen_name(t),
        };
        if !res.contains(cand.as_str()) && !used.contains(&cand) {
            used.insert(cand.clone());
            return cand;
        }
    }
    // fallback: the first free `n<k>` (the name must stay injective)
    let mut k = used.len();
    loop {
        let n = format!("n{k}");
        if used.insert(n.clone()) {
            return n;
        }
        k += 1;
    }
}

fn random_map(t: &mut Tape, base: &NameMap) -> (NameMap, bool) {
    let mut interesting = false;
    let mut nm = NameMap::default();
    let fill = |src: &HashMap<String, String>, t: &mut Tape, interesting: &mut bool| {
        let mut used = HashSet::new();
        let mut keys: Vec<&String> = src.keys().collect();
        keys.sort();
        let mut out = HashMap::new();
        for k in keys {
            out.insert(k.clone(), fresh_name(t, &mut used, interesting));
        }
        out
    };
    nm.vars = fill(&base.vars, t, &mut interesting);
    nm.fns = fill(&base.fns, t, &mut interesting);
    nm.aliases = fill(&base.aliases, t, &mut interesting);
    nm.witnesses = fill(&base.witnesses, t, &mut interesting);
    nm.params = fill(&base.params, t, &mut interesting);
    (nm, interesting)
}

fn s_rename(t: &mut Tape, ctx: &mut Ctx) -> Result<(), Failure> {
    // every third program has template parameters (the fifth naming role)
    let with_params = t.index(3) == 0;
    let g = gen::generate(t, GenCfg { params: with_params, ..GenCfg::small() });
    let base_text = render::render(&g.prog, &Style::canonical());
    require_well_typed(&g, &base_text)?;
    let base_names = rename::names(&g.prog);
    let (maps, _) = assignments(t, &g, 32, 2);
    for variant in 0..3 {
        let mut par_rename: HashMap<String, String> = HashMap::new();
        let (prog2, wit_rename, what, interesting): (_, HashMap<String, String>, &str, bool) = match variant {
            0 | 1 => {
                let (nm, interesting) = random_map(t, &base_names);
                // which naming roles got a name built from a reserved word (prefix) or an awkward name
                let res = reserved();
                for (role, m) in [("variable", &nm.vars), ("function", &nm.fns), ("alias", &nm.aliases), ("witness", &nm.witnesses), ("parameter", &nm.params)] {
                    if m.values().any(|n| res.iter().any(|r| r.len() >= 2 && n.len() > r.len() && n.starts_with(*r))) {
                        ctx.label(&format!("reserved-prefix-name-as:{role}"));
                    }
                    if m.values().any(|n| n.chars().any(|c| c.is_ascii_uppercase()) && res.iter().any(|r| r.eq_ignore_ascii_case(n) && *r != n.as_str())) {
                        ctx.label(&format!("case-variant-of-reserved-word-as:{role}"));
                    }
                }
                par_rename = nm.params.clone();
                (rename::rename(&g.prog, &nm), nm.witnesses.clone(), "alpha-rename", interesting)
            }
            _ => match t.index(2) {
                0 => (rename::expand_aliases(&g.prog), HashMap::new(), "expand-aliases", true),
                _ => {
                    let mut bits = t.next();
                    let mut k = 0;
                    let mut ch = || {
                        k += 1;
                        bits = bits.rotate_left(5) ^ (k as u32).wrapping_mul(2654435761u32);
                        bits % 4 == 0
                    };
                    (rename::parenthesise(&g.prog, &mut ch), HashMap::new(), "parenthesise", true)
                }
            },
        };
        let style = Style::from_seed(t.next() as u64);
        let text2 = render::render(&prog2, &style);
        ctx.label(&format!("transform:{what}"));
        // the transformed program, its witnesses renamed alike
        let w2: Vec<(String, Val, crate::model::Ty)> = g.witnesses.iter().map(|(n, v, ty)| (wit_rename.get(n).cloned().unwrap_or_else(|| n.clone()), v.clone(), ty.clone())).collect();
        let p2: Vec<(String, Val, crate::model::Ty)> = g.params.iter().map(|(n, v, ty)| (par_rename.get(n).cloned().unwrap_or_else(|| n.clone()), v.clone(), ty.clone())).collect();
        let g2 = Generated { prog: prog2, witnesses: w2, params: p2, labels: Default::default(), intended_verdict: g.intended_verdict.clone(), n_holes: g.n_holes, perturbed: g.perturbed };
        let maps2: Vec<HashMap<String, Val>> = maps.iter().map(|m| m.iter().map(|(n, v)| (wit_rename.get(n).cloned().unwrap_or_else(|| n.clone()), v.clone())).collect()).collect();
        // acceptance: a well-typed program is accepted under every identifier map
        match crate::pipe::new_template(&text2) {
            Ok(Ok(_)) => {}
            Ok(Err(e)) => {
                let sig = if e.contains("Grammar error") { "c17:renamed-program-rejected-by-grammar" } else { "c17:renamed-program-rejected" };
                return Err(Failure::new(
                    sig,
                    format!("the program is accepted, its {what} variant is rejected: {}\n--- original ---\n{}\n--- variant ---\n{}", crate::pipe::last_line(&e), truncate(&base_text, 2000), truncate(&text2, 2500)),
                )
                .with(json!({"original": base_text, "variant": text2, "transformation": what, "error": e})));
            }
            Err(p) => return Err(Failure::new(format!("panic:{}", crate::run::panic_site(&p)), format!("TemplateProgram::new panicked: {p}\n{}", truncate(&text2, 2500)))),
        }
        // behaviour: same verdict as the reference interpreter on the original, for every assignment
        for (m1, m2) in maps.iter().zip(&maps2) {
            let e1 = expected(&g.prog, m1, &g.param_map())?;
            let e2 = expected(&g2.prog, m2, &g2.param_map())?;
            if e1 != e2 {
                return Err(Failure::internal(format!("reference interpreter disagrees with itself under {what}: {e1:?} vs {e2:?}\n{text2}")));
            }
        }
        check_maps(&g2, &text2, &maps2, ctx, "c17", &[false])?;
        // names, layout, parentheses and alias spellings do not reach Simplicity: the commitment
        // (without debug symbols) is the same
        if let (Ok(c1), Ok(c2)) = (compile(&base_text, to_arguments(&g), false, "c17"), compile(&text2, to_arguments(&g2), false, "c17")) {
            ctx.evals(1);
            if c1.info.cmr != c2.info.cmr {
                return Err(Failure::new(
                    "c17:cmr-differs-under-transformation",
                    format!("the {what} variant commits to another CMR ({} vs {})\n--- original ---\n{}\n--- variant ---\n{}", c1.info.cmr, c2.info.cmr, truncate(&base_text, 2000), truncate(&text2, 2500)),
                )
                .with(json!({"original": base_text, "variant": text2, "transformation": what})));
            }
        }
        if interesting {
            ctx.nontrivial(digest(&[text2.as_bytes()]));
        }
        ctx.sample(text2.len() as u64, || json!({"transformation": what, "style": style.describe(), "original": truncate(&base_text, 600), "variant": truncate(&text2, 900)}));
    }
    Ok(())
}

pub fn streams() -> Vec<Stream> {
    vec![Stream { name: "rename", kind: Kind::Tape { cases: |t: Tier| t.pick(6_000, 100_000), max_len: 420, f: s_rename }, isolate: false }]
}

pub fn def() -> PropertyDef {
    PropertyDef {
        id: "C17",
        rule: "generated programs x 3 variants each: two alpha-renamings with an injective identifier map per namespace (variables and parameters, functions, aliases, witnesses) whose names are drawn 4:2:3 from {reserved word + suffix (_, digit, letter, _x, ...) over all keywords, builtin types, builtin functions, the 24 builtin aliases, Left Right Some None true false jet witness param list main}, {hand-picked awkward names and case variants}, {random identifiers}, never an exact reserved word; and one of {replace every alias by its definition, wrap random sub-expressions in parentheses}; every variant rendered with a random layout. Oracle (metamorphic): the variant is accepted, and on every witness assignment of the case (all when <= 32, else sampled; witnesses renamed alike) its verdict equals the reference interpreter's verdict for the original; the CMR of the build without debug symbols equals the original's (no name, comment or parenthesis reaches Simplicity). evaluations = program executions. Non-trivial = variant whose map contains a reserved-word-derived name, or an alias-expansion / parenthesisation variant; distinct by digest.",
        assumptions: &["the reserved-word list is the one of the property statement; exact reserved words are never used as names"],
        streams,
        health: &[("rename", "transform:alpha-rename", 900)],
    }
}
