//! C19 - same source, same bytes: in-process, across processes, via simc.

use std::path::PathBuf;
use std::process::Command;

use base64::display::Base64Display;
use base64::engine::general_purpose::STANDARD;
use serde_json::json;

use crate::checks::common::truncate;
use crate::gen::{self, GenCfg};
use crate::nearmiss;
use crate::pipe;
use crate::render::{self, Style};
use crate::run::{catch, verif_dir, Ctx, Failure, Kind, PropertyDef, Stream, Tier};
use crate::seeds;
use crate::tape::{digest, splitmix, Tape};

fn simc_path() -> PathBuf {
    std::env::var("VCHECK_SIMC").map(PathBuf::from).unwrap_or_else(|_| verif_dir().join("target/repo/release/simc"))
}

/// Program number `i`: shipped examples first, then generated programs, every fifth one edited (often rejected).
pub fn program(i: u64) -> (String, String) {
    let exs = seeds::examples();
    if (i as usize) < exs.len() {
        return (exs[i as usize].program.clone(), format!("example:{}", exs[i as usize].name));
    }
    if i % 16 == 7 {
        // a program whose encoding is several KiB long (hundreds of statements)
        let n = 300 + (i as usize % 5) * 100;
        let mut body = String::new();
        for k in 0..n {
            body.push_str(&format!("    assert!(jet::eq_32(jet::max_32({k}, witness::W{k}), {}));\n", k + 1));
        }
        return (format!("fn main() {{\n{body}}}\n"), format!("large:{n}-statements"));
    }
    let mut tape = Tape::new((0..500).map(|k| splitmix(i * 65537 + k) as u32).collect());
    let g = gen::generate(&mut tape, GenCfg { params: false, ..GenCfg::small() });
    let style = Style::from_seed(splitmix(i));
    if i % 5 == 4 {
        if let Some((p, kind)) = nearmiss::edit(&mut tape, &g.prog) {
            return (render::render(&p, &style), format!("near-miss:{}", kind.name()));
        }
    }
    (render::render(&g.prog, &style), "generated".to_string())
}

/// Library result: Ok(commit bytes, cmr) or Err(message).
pub fn compile_bytes(text: &str, debug: bool) -> Result<Result<(Vec<u8>, String), String>, String> {
    catch(|| {
        let c = simfony::CompiledProgram::new(text, simfony::Arguments::default(), debug)?;
        let node = c.commit();
        Ok((node.encode_to_vec(), node.cmr().to_string()))
    })
}

fn fingerprint(r: &Result<(Vec<u8>, String), String>) -> String {
    match r {
        Ok((b, cmr)) => format!("{:016x}:{}:{}", digest(&[b]), b.len(), cmr),
        Err(_) => "ERR".to_string(),
    }
}

/// Child process: print one fingerprint line per (program, debug).
pub fn child_main(dir: &str, n: usize) {
    for i in 0..n {
        let text = std::fs::read_to_string(format!("{dir}/p{i}.simf")).unwrap_or_default();
        for debug in [false, true] {
            let fp = match compile_bytes(&text, debug) {
                Ok(r) => fingerprint(&r),
                Err(p) => format!("PANIC {p}"),
            };
            println!("{i} {} {fp}", debug as u8);
        }
    }
}

const CHUNK: u64 = 16;

fn e_chunk(ci: u64, ctx: &mut Ctx) -> Result<(), Failure> {
    let n_proc = ctx.tier.pick(6, 32) as usize;
    let dir = verif_dir().join("target").join("c19").join(format!("chunk{ci}"));
    let _ = std::fs::create_dir_all(&dir);
    let progs: Vec<(String, String)> = (0..CHUNK).map(|k| program(ci * CHUNK + k)).collect();
    for (k, (text, _)) in progs.iter().enumerate() {
        std::fs::write(dir.join(format!("p{k}.simf")), text).map_err(|e| Failure::internal(format!("cannot write scratch file: {e}")))?;
    }
    // 1. in-process repetitions, interleaved with the other programs of the chunk
    let mut reference: Vec<[Result<(Vec<u8>, String), String>; 2]> = vec![];
    for (text, _) in &progs {
        let mut per = vec![];
        for debug in [false, true] {
            let r = compile_bytes(text, debug).map_err(|p| Failure::new(format!("panic:{}", crate::run::panic_site(&p)), format!("compilation panicked: {p}\n{}", truncate(text, 1500))))?;
            per.push(r);
        }
        reference.push([per[0].clone(), per[1].clone()]);
    }
    for rep in 0..4 {
        for (k, (text, origin)) in progs.iter().enumerate().rev() {
            for (d, debug) in [false, true].into_iter().enumerate() {
                ctx.evals(1);
                let r = compile_bytes(text, debug).map_err(|p| Failure::internal(format!("panic on repetition: {p}")))?;
                if fingerprint(&r) != fingerprint(&reference[k][d]) {
                    return Err(Failure::new(
                        "c19:in-process-compilations-differ",
                        format!("repetition {rep} of the same source (debug={debug}, {origin}) gives {} instead of {}\n{}", fingerprint(&r), fingerprint(&reference[k][d]), truncate(text, 2000)),
                    )
                    .with(json!({"program": text, "debug": debug})));
                }
            }
        }
    }
    // 2. separately started processes (own hash seeds)
    let exe = std::env::current_exe().map_err(|e| Failure::internal(e.to_string()))?;
    let mut children = vec![];
    for _ in 0..n_proc {
        let c = Command::new(&exe).arg("__c19").arg(&dir).arg(CHUNK.to_string()).stdout(std::process::Stdio::piped()).stderr(std::process::Stdio::null()).spawn().map_err(|e| Failure::internal(format!("spawn: {e}")))?;
        children.push(c);
    }
    for (pi, c) in children.into_iter().enumerate() {
        let out = c.wait_with_output().map_err(|e| Failure::internal(e.to_string()))?;
        let text = String::from_utf8_lossy(&out.stdout);
        let mut seen = 0;
        for line in text.lines() {
            let mut it = line.splitn(3, ' ');
            let (Some(k), Some(d), Some(fp)) = (it.next(), it.next(), it.next()) else { continue };
            let (k, d): (usize, usize) = (k.parse().unwrap_or(0), d.parse().unwrap_or(0));
            seen += 1;
            ctx.evals(1);
            let want = fingerprint(&reference[k][d]);
            if fp != want {
                return Err(Failure::new(
                    "c19:processes-disagree",
                    format!("process {pi} compiles {} (debug={}) to {fp}, this process to {want}\n{}", progs[k].1, d == 1, truncate(&progs[k].0, 2000)),
                )
                .with(json!({"program": progs[k].0, "debug": d == 1})));
            }
        }
        if seen != 2 * CHUNK as usize {
            return Err(Failure::internal(format!("child process {pi} reported {seen} results (status {:?})", out.status)));
        }
    }
    // 3. the simc binary
    let simc = simc_path();
    if !simc.exists() {
        return Err(Failure::internal(format!("simc binary not found at {} (run through ./check)", simc.display())));
    }
    for (k, (text, origin)) in progs.iter().enumerate() {
        for (d, debug) in [false, true].into_iter().enumerate() {
            // every program once without --debug; --debug on a third of them (process start-up dominates)
            if debug && (ci * CHUNK + k as u64) % 3 != 0 {
                continue;
            }
            ctx.evals(1);
            let mut cmd = Command::new(&simc);
            cmd.arg(dir.join(format!("p{k}.simf")));
            if debug {
                cmd.arg("--debug");
            }
            let out = cmd.output().map_err(|e| Failure::internal(format!("simc: {e}")))?;
            let stdout = String::from_utf8_lossy(&out.stdout).to_string();
            let stderr = String::from_utf8_lossy(&out.stderr).to_string();
            let detail = json!({"program": text, "debug": debug, "stdout": truncate(&stdout, 500), "stderr": truncate(&stderr, 500), "status": out.status.code()});
            match &reference[k][d] {
                Ok((bytes, _)) => {
                    let want = format!("Program:\n{}\n", Base64Display::new(bytes, &STANDARD));
                    if !out.status.success() || stdout != want {
                        return Err(Failure::new(
                            "c19:simc-output-differs-from-library",
                            format!("simc{} on {origin}: exit {:?}, stdout `{}`; the library's commit encoding is `{}`\n{}", if debug { " --debug" } else { "" }, out.status.code(), truncate(&stdout, 300), truncate(&want, 300), truncate(text, 1500)),
                        )
                        .with(detail));
                    }
                    ctx.label("simc:ok");
                }
                Err(_) => {
                    if out.status.success() || stderr.trim().is_empty() || stdout.contains("Program:") {
                        return Err(Failure::new(
                            "c19:simc-succeeds-where-library-fails",
                            format!("the library returns an error for {origin} but simc exits {:?} with stdout `{}` stderr `{}`\n{}", out.status.code(), truncate(&stdout, 200), truncate(&stderr, 200), truncate(text, 1500)),
                        )
                        .with(detail));
                    }
                    ctx.label("simc:error-as-expected");
                }
            }
        }
    }
    for (k, (text, _)) in progs.iter().enumerate() {
        let rich = text.matches("fn ").count() + text.matches("type ").count() + text.matches("witness::").count() >= 3;
        if rich && reference[k][1].is_ok() {
            ctx.nontrivial(digest(&[text.as_bytes()]));
        }
    }
    let _ = std::fs::remove_dir_all(&dir);
    ctx.sample(ci, || json!({"chunk": ci, "programs": progs.iter().map(|(_, o)| o.clone()).collect::<Vec<_>>(), "processes": n_proc, "first_program": truncate(&progs[0].0, 600)}));
    Ok(())
}

pub fn streams() -> Vec<Stream> {
    vec![Stream {
        name: "chunks",
        kind: Kind::Enum { count: |t: Tier| (seeds::examples().len() as u64 + t.pick(300, 5000)).div_ceil(CHUNK), complete: |_| false, f: e_chunk },
        isolate: false,
    }]
}

pub fn def() -> PropertyDef {
    PropertyDef {
        id: "C19",
        rule: "programs = the shipped examples + 300 (thorough 5000) generated programs, every fifth one a near-miss edit (often rejected, for the error side), one per chunk a program of 300-700 statements whose encoding is several KiB long, in chunks of 16 x {debug off, on}. Per chunk: 5 in-process compilations of every program (fresh CompiledProgram each, interleaved with the other programs of the chunk) must give identical commit encodings and CMRs; 6 (thorough 32) separately started processes (each with its own hash seeds) must report the same digest of encoding + CMR, or the same error status; `simc FILE [--debug]` built from /repo must print `Program:` + base64 of exactly the library's commit encoding and exit 0 when the library returns Ok, and exit non-zero with a non-empty stderr and no `Program:` line when the library returns Err. evaluations = compilations compared + simc runs. Non-trivial = accepted program with >= 3 functions / aliases / witnesses (so the hash maps have something to reorder), debug on; distinct by digest of the text.",
        assumptions: &["an order dependence whose probability per process is tiny can be missed: N processes only give 1 - 2^-N confidence for a two-way ordering"],
        streams,
        health: &[],
    }
}
