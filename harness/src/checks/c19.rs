//! C19 - same source, same bytes: in-process, across processes, via simc.

use std::path::PathBuf;
use std::process::Command;

use base64::display::Base64Display;
use base64::engine::general_purpose::STANDARD;
use serde_json::json;

use crate::checks::common::truncate;
use crate::gen::{self, GenCfg};
use crate::nearmiss;
use crate::pipe;
use crate::render::{self, Style};
use crate::run::{catch, verif_dir, Ctx, Failure, Kind, PropertyDef, Stream, Tier};
use crate::seeds;
use crate::tape::{digest, splitmix, Tape};

fn simc_path() -> PathBuf {
    std::env::var("VCHECK_SIMC").map(PathBuf::from).unwrap_or_else(|_| verif_dir().join("target/repo/release/simc"))
}

/// Program number `i`: shipped examples first, then generated programs, every fifth one edited (often rejected).
pub fn program(i: u64) -> (String, String) {
    let exs = seeds::examples();
    if (i as usize) < exs.len() {
        return (exs[i as usize].program.clone(), format!("example:{}", exs[i as usize].name));
    }
    if i % 16 == 7 {
        // a program whose encoding is several KiB long (hundreds of statements)
        let n = 300 + (i as usize % 5) * 100;
        let mut body = String::new();
        for k in 0..n {
            body.push_str(&format!("    assert!(jet::eq_32(jet::max_32({k}, witness::W{k}), {}));\n", k + 1));
        }
        return (format!("fn main() {{\n{body}}}\n"), format!("large:{n}-statements"));
    }
    let mut tape = Tape::new((0..500).map(|k| splitmix(i * 65537 + k) as u32).collect());
    let g = gen::generate(&mut tape, GenCfg { params: false, ..GenCfg::small() });
    let style = Style::from_seed(splitmix(i));
    if i % 5 == 4 {
        if let Some((p, kind)) = nearmiss::edit(&mut tape, &g.prog) {
            return (render::render(&p, &style), format!("near-miss:{}", kind.name()));
        }
    }
    (render::render(&g.prog, &style), "generated".to_string())
}

/// Library result: Ok(commit bytes, cmr) or Err(message).
pub fn compile_bytes(text: &str, debug: bool) -> Result<Result<(Vec<u8>, String), String>, String> {
    catch(|| {
        let c = simfony::CompiledProgram::new(text, simfony::Arguments::default(), debug)?;
        let node = c.commit();
        Ok((node.encode_to_vec(), node.cmr().to_string()))
    })
}

fn fingerprint(r: &Result<(Vec<u8>, String), String>) -> String {
    match r {
        Ok((b, cmr)) => format!("{:016x}:{}:{}", digest(&[b]), b.len(), cmr),
        Err(_) => "ERR".to_string(),
    }
}

/// Child process: print one fingerprint line per (program, debug).
pub fn child_main(dir: &str, n: usize) {
    for i in 0..n {
        let text = std::fs::read_to_string(format!("{dir}/p{i}.simf")).unwrap_or_default();
        for debug in [false, true] {
            let fp = match compile_bytes(&text, debug) {
                Ok(r) => fingerprint(&r),
                Err(p) => format!("PANIC {p}"),
            };
            println!("{i} {} {fp}", debug as u8);
        }
    }
}

/// A source that the compiler rejects at some stage (grammar, parse-tree construction, analysis).
fn rejected_source(t: &mut Tape, base: &str) -> (String, &'static str) {
    let depth = t.index(48);
    let mut open = String::new();
    let mut close = String::new();
    for k in 0..depth {
        open.push_str(&format!("let n{k}: () = {{ "));
        close.push_str(" };");
    }
    match t.index(8) {
        0 => (format!("fn main() {{ {open}let x: List<u8, {}> = list![];{close} }}", [3u32, 5, 6, 7, 9, 100, 0, 1][t.index(8)]), "list-bound"),
        1 => (format!("fn main() {{ {open}let y: u8 = match witness::E {{ Left(a: u8) => a, Left(b: u8) => b, }};{close} }}"), "match-arms"),
        2 => (format!("fn main() {{ {open}let x: [u8; 99999999999999999999999999] = [];{close} }}"), "array-size"),
        3 => (format!("fn main() {{ {open}let x: u8 = 256;{close} }}"), "literal-range"),
        4 => (format!("fn main() {{ {open}let x: u8 = undefined_name;{close} }}"), "undefined"),
        5 => (format!("fn main() {{ {open}let x: u7 = 1;{close} }}"), "grammar"),
        6 => {
            let (m, _) = crate::textmut::mutate(t, base, "fn main() { let x: List<u8, 3> = list![1]; }");
            // resource guards of DESIGN section 3 (a declared size of 2^32 makes the analyser allocate it)
            if crate::checks::c06::guard(&m).is_some() {
                (base.chars().rev().collect(), "guarded-mutant-replaced")
            } else {
                (m, "token-mutant")
            }
        }
        _ => (base.chars().take(t.index(base.chars().count().max(1))).collect(), "truncated"),
    }
}

/// The result of compiling a source does not depend on what the process did before. Every case
/// runs in a process of its own (`vcheck __c19hist <tape file>`): state that the library keeps per
/// thread or per process must not leak from one case into the next, or a failure would not replay
/// from its tape.
fn s_history(t: &mut Tape, ctx: &mut Ctx) -> Result<(), Failure> {
    static SEQ: std::sync::atomic::AtomicU64 = std::sync::atomic::AtomicU64::new(0);
    // consume nothing from `t` here: the child replays the whole tape
    let dir = verif_dir().join("target").join("c19");
    let _ = std::fs::create_dir_all(&dir);
    let file = dir.join(format!("hist-{}-{}.json", std::process::id(), SEQ.fetch_add(1, std::sync::atomic::Ordering::Relaxed)));
    std::fs::write(&file, serde_json::to_vec(&t.data()).unwrap_or_default()).map_err(|e| Failure::internal(format!("cannot write scratch file: {e}")))?;
    let exe = std::env::current_exe().map_err(|e| Failure::internal(e.to_string()))?;
    let out = Command::new(&exe).arg("__c19hist").arg(&file).stderr(std::process::Stdio::null()).output().map_err(|e| Failure::internal(format!("spawn: {e}")));
    let _ = std::fs::remove_file(&file);
    let out = out?;
    let text = String::from_utf8_lossy(&out.stdout);
    let Some(line) = text.lines().rev().find(|l| l.starts_with("HIST ")) else {
        return Err(Failure::internal(format!("history child gave no result (status {:?})", out.status)));
    };
    let j: serde_json::Value = serde_json::from_str(&line[5..]).map_err(|e| Failure::internal(format!("history child output: {e}")))?;
    ctx.evals(j["evals"].as_u64().unwrap_or(0));
    if let Some(f) = j.get("failure").filter(|f| !f.is_null()) {
        let fl = Failure::new(f["signature"].as_str().unwrap_or("c19:history"), f["message"].as_str().unwrap_or("")).with(f["detail"].clone());
        return Err(fl);
    }
    ctx.label("history");
    if j["large"].as_bool() == Some(true) {
        ctx.label("history:program-above-10kB");
    }
    if j["nontrivial"].as_bool() == Some(true) {
        ctx.nontrivial(j["digest"].as_u64().unwrap_or(0));
    }
    let sample = j["sample"].clone();
    ctx.sample(j["between"].as_u64().unwrap_or(0), || sample.clone());
    Ok(())
}

/// Child process of the history stream.
pub fn hist_child_main(path: &str) {
    let data: Vec<u32> = std::fs::read(path).ok().and_then(|b| serde_json::from_slice(&b).ok()).unwrap_or_default();
    let mut t = Tape::new(data);
    let mut info = json!({});
    let mut evals = 0u64;
    let r = catch(|| history_case(&mut t, &mut evals, &mut info));
    let failure = match r {
        Ok(Ok(())) => serde_json::Value::Null,
        Ok(Err(f)) => json!({"signature": f.signature, "message": f.message, "detail": f.detail}),
        Err(p) => {
            let f = crate::run::panic_failure(&p);
            json!({"signature": f.signature, "message": f.message, "detail": f.detail})
        }
    };
    info["failure"] = failure;
    info["evals"] = json!(evals);
    println!("HIST {}", info);
}

/// Other things a process does with the library between two compilations.
fn other_activity(t: &mut Tape) -> &'static str {
    use simfony::parse::ParseFromStr;
    match t.index(5) {
        0 => {
            let tys = ["u8", "(u8, u16)", "[u8; 4]", "List<u8, 4>", "Option<u8>", "Either<u8, u4>"];
            let vals = ["1", "(1, 2)", "0xdeadbeef", "list![1, 2, 3]", "Some(1)", "Left(7)", "{ 1 }"];
            if let Ok(Ok(ty)) = catch(|| simfony::ResolvedType::parse_from_str(tys[t.index(tys.len())])) {
                let _ = catch(|| simfony::Value::parse_from_str(vals[t.index(vals.len())], &ty).map(|_| ()));
            }
            "value-parse"
        }
        1 => {
            let _ = catch(|| simfony::WitnessValues::parse_from_str("mod witness {\n    const A: u8 = 1;\n    const B: (u8, bool) = (2, true);\n}\n").map(|_| ()));
            "witness-module-parse"
        }
        2 => {
            let _ = catch(|| serde_json::from_str::<simfony::WitnessValues>("{\"A\": {\"value\": \"0x01\", \"type\": \"u8\"}}").map(|_| ()));
            let _ = catch(|| serde_json::from_str::<simfony::Arguments>("{\"P\": {\"value\": \"(1, 2)\", \"type\": \"(u8, u8)\"}}").map(|_| ()));
            "json-parse"
        }
        3 => {
            let _ = catch(|| simfony::ResolvedType::parse_from_str(["Either<Option<[u8; 2]>, List<u4, 4>>", "Pubkey", "NoSuchAlias", "[u8; 3"][t.index(4)]).map(|_| ()));
            "type-parse"
        }
        _ => {
            // a whole example: compile with its arguments, satisfy with its witness file, run
            let exs = seeds::examples();
            let ex = &exs[t.index(exs.len())];
            let _ = catch(|| {
                let args = ex.args_json.as_ref().and_then(|a| serde_json::from_str::<simfony::Arguments>(a).ok()).unwrap_or_default();
                if let Ok(c) = simfony::CompiledProgram::new(ex.program.as_str(), args, false) {
                    for (_, w) in &ex.wit_json {
                        if let Ok(w) = serde_json::from_str::<simfony::WitnessValues>(w) {
                            if let Ok(s) = c.satisfy(w) {
                                let _ = pipe::exec(s.redeem(), &pipe::dummy_env());
                            }
                        }
                    }
                }
            });
            "example-compile-satisfy-run"
        }
    }
}

fn history_case(t: &mut Tape, evals: &mut u64, info: &mut serde_json::Value) -> Result<(), Failure> {
    // the program: generated, or (one in four) a long one whose text is well above 10 kB
    let large = t.index(4) == 0;
    let text = if large {
        let n = 300 + t.index(400);
        let mut body = String::new();
        for k in 0..n {
            body.push_str(&format!("    assert!(jet::eq_32(jet::max_32({k}, witness::W{k}), {}));\n", k + 1));
        }
        format!("fn main() {{\n{body}}}\n")
    } else {
        let g = gen::generate(t, GenCfg { params: false, ..GenCfg::small() });
        let style = Style::from_seed(t.next() as u64);
        render::render(&g.prog, &style)
    };
    // first: debug on, then off (the second pass compiles in the other order)
    let mut first: Vec<Result<(Vec<u8>, String), String>> = vec![Err(String::new()), Err(String::new())];
    for debug in [true, false] {
        *evals += 1;
        first[debug as usize] = compile_bytes(&text, debug).map_err(|p| Failure::new(format!("panic:{}", crate::run::panic_site(&p)), format!("compilation panicked: {p}\n{}", truncate(&text, 1500))))?;
    }
    let n = if large { 20 + t.index(60) } else { 150 + t.index(250) };
    let mut kinds = std::collections::BTreeMap::new();
    let mut n_rejected = 0;
    for _ in 0..n {
        if t.index(4) == 0 {
            *kinds.entry(other_activity(t)).or_insert(0u32) += 1;
            continue;
        }
        let (src, kind) = rejected_source(t, if large { "fn main() { let x: u8 = 1; }" } else { &text });
        for d in [false, true] {
            *evals += 1;
            match compile_bytes(&src, d) {
                Ok(Err(_)) => n_rejected += 1,
                Ok(Ok(_)) => {}
                // a panic on arbitrary text is C06's business
                Err(_) => {}
            }
        }
        *kinds.entry(kind).or_insert(0u32) += 1;
    }
    for debug in [false, true] {
        *evals += 1;
        let again = compile_bytes(&text, debug).map_err(|p| Failure::new(format!("panic:{}", crate::run::panic_site(&p)), format!("compilation panicked after {n} other activities: {p}")))?;
        let before = &first[debug as usize];
        if fingerprint(&again) != fingerprint(before) {
            let what = match &again {
                Err(e) => format!("error: {}", pipe::last_line(e)),
                Ok(_) => "other bytes".to_string(),
            };
            return Err(Failure::new(
                "c19:result-depends-on-earlier-compilations",
                format!("the same source (debug={debug}, {} bytes) compiled to {} first and to {} ({what}) after the process had done {n} other things with the library ({n_rejected} rejected compilations; {:?})\n{}", text.len(), fingerprint(before), fingerprint(&again), kinds, truncate(&text, 2000)),
            )
            .with(json!({"program": truncate(&text, 20000), "debug": debug, "activities_between": n})));
        }
    }
    // debug and plain builds of one source are different programs whenever it has a tracked call
    if let (Ok((b0, _)), Ok((b1, _))) = (&first[0], &first[1]) {
        if large && b0 == b1 {
            return Err(Failure::new("c19:debug-flag-ignored", format!("a program with {} asserts compiles to the same bytes with and without debug symbols\n{}", text.matches("assert!").count(), truncate(&text, 600))));
        }
    }
    info["large"] = json!(text.len() > 10_000);
    info["nontrivial"] = json!(n_rejected > 0 && first[0].is_ok());
    info["digest"] = json!(digest(&[text.as_bytes(), &n.to_le_bytes()]));
    info["between"] = json!(n);
    info["sample"] = json!({"program": truncate(&text, 600), "activities_between": n, "rejected_compilations": n_rejected, "kinds": kinds});
    Ok(())
}

const CHUNK: u64 = 16;

fn e_chunk(ci: u64, ctx: &mut Ctx) -> Result<(), Failure> {
    let n_proc = ctx.tier.pick(6, 32) as usize;
    let dir = verif_dir().join("target").join("c19").join(format!("chunk{ci}"));
    let _ = std::fs::create_dir_all(&dir);
    let progs: Vec<(String, String)> = (0..CHUNK).map(|k| program(ci * CHUNK + k)).collect();
    for (k, (text, _)) in progs.iter().enumerate() {
        std::fs::write(dir.join(format!("p{k}.simf")), text).map_err(|e| Failure::internal(format!("cannot write scratch file: {e}")))?;
    }
    // 1. in-process repetitions, interleaved with the other programs of the chunk
    let mut reference: Vec<[Result<(Vec<u8>, String), String>; 2]> = vec![];
    for (text, _) in &progs {
        let mut per = vec![];
        for debug in [false, true] {
            let r = compile_bytes(text, debug).map_err(|p| Failure::new(format!("panic:{}", crate::run::panic_site(&p)), format!("compilation panicked: {p}\n{}", truncate(text, 1500))))?;
            per.push(r);
        }
        reference.push([per[0].clone(), per[1].clone()]);
    }
    for rep in 0..4 {
        for (k, (text, origin)) in progs.iter().enumerate().rev() {
            for (d, debug) in [false, true].into_iter().enumerate() {
                ctx.evals(1);
                let r = compile_bytes(text, debug).map_err(|p| Failure::internal(format!("panic on repetition: {p}")))?;
                if fingerprint(&r) != fingerprint(&reference[k][d]) {
                    return Err(Failure::new(
                        "c19:in-process-compilations-differ",
                        format!("repetition {rep} of the same source (debug={debug}, {origin}) gives {} instead of {}\n{}", fingerprint(&r), fingerprint(&reference[k][d]), truncate(text, 2000)),
                    )
                    .with(json!({"program": text, "debug": debug})));
                }
            }
        }
    }
    // 2. separately started processes (own hash seeds)
    let exe = std::env::current_exe().map_err(|e| Failure::internal(e.to_string()))?;
    let mut children = vec![];
    for _ in 0..n_proc {
        let c = Command::new(&exe).arg("__c19").arg(&dir).arg(CHUNK.to_string()).stdout(std::process::Stdio::piped()).stderr(std::process::Stdio::null()).spawn().map_err(|e| Failure::internal(format!("spawn: {e}")))?;
        children.push(c);
    }
    for (pi, c) in children.into_iter().enumerate() {
        let out = c.wait_with_output().map_err(|e| Failure::internal(e.to_string()))?;
        let text = String::from_utf8_lossy(&out.stdout);
        let mut seen = 0;
        for line in text.lines() {
            let mut it = line.splitn(3, ' ');
            let (Some(k), Some(d), Some(fp)) = (it.next(), it.next(), it.next()) else { continue };
            let (k, d): (usize, usize) = (k.parse().unwrap_or(0), d.parse().unwrap_or(0));
            seen += 1;
            ctx.evals(1);
            let want = fingerprint(&reference[k][d]);
            if fp != want {
                return Err(Failure::new(
                    "c19:processes-disagree",
                    format!("process {pi} compiles {} (debug={}) to {fp}, this process to {want}\n{}", progs[k].1, d == 1, truncate(&progs[k].0, 2000)),
                )
                .with(json!({"program": progs[k].0, "debug": d == 1})));
            }
        }
        if seen != 2 * CHUNK as usize {
            return Err(Failure::internal(format!("child process {pi} reported {seen} results (status {:?})", out.status)));
        }
    }
    // 3. the simc binary
    let simc = simc_path();
    if !simc.exists() {
        return Err(Failure::internal(format!("simc binary not found at {} (run through ./check)", simc.display())));
    }
    for (k, (text, origin)) in progs.iter().enumerate() {
        for (d, debug) in [false, true].into_iter().enumerate() {
            // every program once without --debug; --debug on a third of them (process start-up dominates)
            if debug && (ci * CHUNK + k as u64) % 3 != 0 {
                continue;
            }
            ctx.evals(1);
            let mut cmd = Command::new(&simc);
            cmd.arg(dir.join(format!("p{k}.simf")));
            if debug {
                cmd.arg("--debug");
            }
            let out = cmd.output().map_err(|e| Failure::internal(format!("simc: {e}")))?;
            let stdout = String::from_utf8_lossy(&out.stdout).to_string();
            let stderr = String::from_utf8_lossy(&out.stderr).to_string();
            let detail = json!({"program": text, "debug": debug, "stdout": truncate(&stdout, 500), "stderr": truncate(&stderr, 500), "status": out.status.code()});
            match &reference[k][d] {
                Ok((bytes, _)) => {
                    let want = format!("Program:\n{}\n", Base64Display::new(bytes, &STANDARD));
                    if !out.status.success() || stdout != want {
                        return Err(Failure::new(
                            "c19:simc-output-differs-from-library",
                            format!("simc{} on {origin}: exit {:?}, stdout `{}`; the library's commit encoding is `{}`\n{}", if debug { " --debug" } else { "" }, out.status.code(), truncate(&stdout, 300), truncate(&want, 300), truncate(text, 1500)),
                        )
                        .with(detail));
                    }
                    ctx.label("simc:ok");
                }
                Err(_) => {
                    if out.status.success() || stderr.trim().is_empty() || stdout.contains("Program:") {
                        return Err(Failure::new(
                            "c19:simc-succeeds-where-library-fails",
                            format!("the library returns an error for {origin} but simc exits {:?} with stdout `{}` stderr `{}`\n{}", out.status.code(), truncate(&stdout, 200), truncate(&stderr, 200), truncate(text, 1500)),
                        )
                        .with(detail));
                    }
                    ctx.label("simc:error-as-expected");
                }
            }
        }
    }
    for (k, (text, _)) in progs.iter().enumerate() {
        let rich = text.matches("fn ").count() + text.matches("type ").count() + text.matches("witness::").count() >= 3;
        if rich && reference[k][1].is_ok() {
            ctx.nontrivial(digest(&[text.as_bytes()]));
        }
    }
    let _ = std::fs::remove_dir_all(&dir);
    ctx.sample(ci, || json!({"chunk": ci, "programs": progs.iter().map(|(_, o)| o.clone()).collect::<Vec<_>>(), "processes": n_proc, "first_program": truncate(&progs[0].0, 600)}));
    Ok(())
}

pub fn streams() -> Vec<Stream> {
    vec![Stream {
        name: "chunks",
        kind: Kind::Enum { count: |t: Tier| (seeds::examples().len() as u64 + t.pick(300, 2500)).div_ceil(CHUNK), complete: |_| false, f: e_chunk },
        isolate: false,
    }, Stream { name: "history", kind: Kind::Tape { cases: |t: Tier| t.pick(400, 4_000), max_len: 4000, f: s_history }, isolate: false }]
}

pub fn def() -> PropertyDef {
    PropertyDef {
        id: "C19",
        rule: "programs = the shipped examples + 300 (thorough 2500) generated programs, every fifth one a near-miss edit (often rejected, for the error side), one per chunk a program of 300-700 statements whose encoding is several KiB long, in chunks of 16 x {debug off, on}. Per chunk: 5 in-process compilations of every program (fresh CompiledProgram each, interleaved with the other programs of the chunk) must give identical commit encodings and CMRs; 6 (thorough 32) separately started processes (each with its own hash seeds) must report the same digest of encoding + CMR, or the same error status; `simc FILE [--debug]` built from /repo must print `Program:` + base64 of exactly the library's commit encoding and exit 0 when the library returns Ok, and exit non-zero with a non-empty stderr and no `Program:` line when the library returns Err. stream history (one process per case): a generated program - one in four a long one of 300-700 statements, 15-35 kB of text - is compiled (debug on, then off), then the process does 150-400 (long program: 20-80) other things with the library: compilations of sources that are rejected at different stages (list bound not a power of two, incompatible match arms, oversized array size, literal out of range, undefined name, grammar error, token mutants and truncations of the program; each nested 0-47 blocks deep), value / type / witness-module / JSON parsing, a shipped example compiled, satisfied and run; then the program again (debug off, then on): same bytes and CMR, or the same error status. evaluations = compilations compared + simc runs. Non-trivial = accepted program with >= 3 functions / aliases / witnesses (so the hash maps have something to reorder), debug on; distinct by digest of the text.",
        assumptions: &["an order dependence whose probability per process is tiny can be missed: N processes only give 1 - 2^-N confidence for a two-way ordering"],
        streams,
        health: &[],
    }
}
