//! C19 - same source, same bytes: in-process, across processes, via simc.

use std::path::PathBuf;
use std::process::Command;

use base64::display::Base64Display;
use base64::engine::general_purpose::STANDARD;
use serde_json::json;

use crate::checks::common::truncate;
use crate::gen::{self, GenCfg};
use crate::nearmiss;
use crate::pipe;
use crate::render::{self, Style};
use crate::run::{catch, verif_dir, Ctx, Failure, Kind, PropertyDef, Stream, Tier};
use crate::seeds;
use crate::tape::{digest, splitmix, Tape};

fn simc_path() -> PathBuf {
    std::env::var("VCHECK_SIMC").map(PathBuf::from).unwrap_or_else(|_| verif_dir().join("target/repo/release/simc"))
}

/// Program number `i`: shipped examples first, then generated programs, every fifth one edited (often rejected).
pub fn program(i: u64) -> (String, String) {
    let exs = seeds::examples();
    if (i as usize) < exs.len() {
        return (exs[i as usize].program.clone(), format!("example:{}", exs[i as usize].name));
    }
    if i % 16 == 7 {
        // a program whose encoding is several KiB long (hundreds of statements)
        let n = 300 + (i as usize % 5) * 100;
        let mut body = String::new();
        for k in 0..n {
            body.push_str(&format!("    assert!(jet::eq_32(jet::max_32({k}, witness::W{k}), {}));\n", k + 1));
        }
        return (format!("fn main() {{\n{body}}}\n"), format!("large:{n}-statements"));
    }
    let mut tape = Tape::new((0..500).map(|k| splitmix(i * 65537 + k) as u32).collect());
    let g = gen::generate(&mut tape, GenCfg { params: false, ..GenCfg::small() });
    let style = Style::from_seed(splitmix(i));
    if i % 5 == 4 {
        if let Some((p, kind)) = nearmiss::edit(&mut tape, &g.prog) {
            return (render::render(&p, &style), format!("near-miss:{}", kind.name()));
        }
    }
    (render::render(&g.prog, &style), "generated".to_string())
}

/// Library result: Ok(commit bytes, cmr) or Err(message).
pub fn compile_bytes(text: &str, debug: bool) -> Result<Result<(Vec<u8>, String), String>, String> {
    catch(|| {
        let c = simfony::CompiledProgram::new(text, simfony::Arguments::default(), debug)?;
        let node = c.commit();
        Ok((node.encode_to_vec(), node.cmr().to_string()))
    })
}

fn fingerprint(r: &Result<(Vec<u8>, String), String>) -> String {
    match r {
        Ok((b, cmr)) => format!("{:016x}:{}:{}", digest(&[b]), b.len(), cmr),
        Err(_) => "ERR".to_string(),
    }
}

/// Child process: print one fingerprint line per (program, debug).
pub fn child_main(dir: &str, n: usize) {
    for i in 0..n {
        let text = std::fs::read_to_string(format!("{dir}/p{i}.simf")).unwrap_or_default();
        for debug in [false, true] {
            let fp = match compile_bytes(&text, debug) {
                Ok(r) => fingerprint(&r),
                Err(p) => format!("PANIC {p}"),
            };
            println!("{i} {} {fp}", debug as u8);
        }
    }
}

/// A source that the compiler rejects at some stage (grammar, parse-tree construction, analysis).
fn rejected_source(t: &mut Tape, base: &str) -> (String, &'static str) {
    let depth = t.index(48);
    let mut open = String::new();
    let mut close = String::new();
    for k in 0..depth {
        open.push_str(&format!("let n{k}: () = {{ "));
        close.push_str(" };");
    }
    match t.index(8) {
        0 => (format!("fn main() {{ {open}let x: List<u8, {}> = list![];{close} }}", [3u32, 5, 6, 7, 9, 100, 0, 1][t.index(8)]), "list-bound"),
        1 => (format!("fn main() {{ {open}let y: u8 = match witness::E {{ Left(a: u8) => a, Left(b: u8) => b, }};{close} }}"), "match-arms"),
        2 => (format!("fn main() {{ {open}let x: [u8; 99999999999999999999999999] = [];{close} }}"), "array-size"),
        3 => (format!("fn main() {{ {open}let x: u8 = 256;{close} }}"), "literal-range"),
        4 => (format!("fn main() {{ {open}let x: u8 = undefined_name;{close} }}"), "undefined"),
        5 => (format!("fn main() {{ {open}let x: u7 = 1;{close} }}"), "grammar"),
        6 => {
            let (m, _) = crate::textmut::mutate(t, base, "fn main() { let x: List<u8, 3> = list![1]; }");
            // resource guards of DESIGN section 3 (a declared size of 2^32 makes the analyser allocate it)
            if crate::checks::c06::guard(&m).is_some() {
                (base.chars().rev().collect(), "guarded-mutant-replaced")
            } else {
                (m, "token-mutant")
            }
        }
        _ => (base.chars().take(t.index(base.chars().count().max(1))).collect(), "truncated"),
    }
}

/// The result of compiling a source does not depend on what the same thread compiled (and was
/// refused) before.
fn s_history(t: &mut Tape, ctx: &mut Ctx) -> Result<(), Failure> {
    // each case on a thread of its own: state that the library keeps per thread must not leak
    // from one case into the next, or a failure would not replay from its tape
    std::thread::scope(|s| {
        let h = std::thread::Builder::new().stack_size(8 << 20).spawn_scoped(s, || history_case(t, ctx)).map_err(|e| Failure::internal(format!("cannot start a thread: {e}")))?;
        match h.join() {
            Ok(r) => r,
            Err(p) => {
                let msg = p.downcast_ref::<String>().cloned().or_else(|| p.downcast_ref::<&str>().map(|s| s.to_string())).unwrap_or_default();
                Err(Failure::internal(format!("history thread panicked: {msg}")))
            }
        }
    })
}

fn history_case(t: &mut Tape, ctx: &mut Ctx) -> Result<(), Failure> {
    let g = gen::generate(t, GenCfg { params: false, ..GenCfg::small() });
    let style = Style::from_seed(t.next() as u64);
    let text = render::render(&g.prog, &style);
    let first: Vec<_> = [false, true].into_iter().map(|d| compile_bytes(&text, d)).collect();
    for r in &first {
        if let Err(p) = r {
            return Err(Failure::new(format!("panic:{}", crate::run::panic_site(p)), format!("compilation panicked: {p}\n{}", truncate(&text, 1500))));
        }
    }
    let n = 150 + t.index(250);
    let mut kinds = std::collections::BTreeMap::new();
    let mut n_rejected = 0;
    for _ in 0..n {
        let (src, kind) = rejected_source(t, &text);
        for d in [false, true] {
            ctx.evals(1);
            match compile_bytes(&src, d) {
                Ok(Err(_)) => n_rejected += 1,
                Ok(Ok(_)) => {}
                // a panic on arbitrary text is C06's business
                Err(_) => {}
            }
        }
        *kinds.entry(kind).or_insert(0u32) += 1;
    }
    for (d, debug) in [false, true].into_iter().enumerate() {
        ctx.evals(1);
        let again = compile_bytes(&text, debug).map_err(|p| Failure::new(format!("panic:{}", crate::run::panic_site(&p)), format!("compilation panicked after {n} other sources: {p}")))?;
        let before = first[d].as_ref().expect("checked above");
        if fingerprint(&again) != fingerprint(before) {
            let what = match &again {
                Err(e) => format!("error: {}", pipe::last_line(e)),
                Ok(_) => "other bytes".to_string(),
            };
            return Err(Failure::new(
                "c19:result-depends-on-earlier-compilations",
                format!("the same source (debug={debug}) compiled to {} first and to {} ({what}) after the thread had compiled {n} other sources, {n_rejected} of them rejected\n{}", fingerprint(before), fingerprint(&again), truncate(&text, 2000)),
            )
            .with(json!({"program": text, "debug": debug, "sources_between": n})));
        }
    }
    if n_rejected > 0 && first[0].as_ref().map_or(false, |r| r.is_ok()) {
        ctx.nontrivial(digest(&[text.as_bytes(), &n.to_le_bytes()]));
    }
    ctx.label("history");
    ctx.sample(n as u64, || json!({"program": truncate(&text, 600), "sources_between": n, "rejected_compilations": n_rejected, "kinds": kinds}));
    Ok(())
}

const CHUNK: u64 = 16;

fn e_chunk(ci: u64, ctx: &mut Ctx) -> Result<(), Failure> {
    let n_proc = ctx.tier.pick(6, 32) as usize;
    let dir = verif_dir().join("target").join("c19").join(format!("chunk{ci}"));
    let _ = std::fs::create_dir_all(&dir);
    let progs: Vec<(String, String)> = (0..CHUNK).map(|k| program(ci * CHUNK + k)).collect();
    for (k, (text, _)) in progs.iter().enumerate() {
        std::fs::write(dir.join(format!("p{k}.simf")), text).map_err(|e| Failure::internal(format!("cannot write scratch file: {e}")))?;
    }
    // 1. in-process repetitions, interleaved with the other programs of the chunk
    let mut reference: Vec<[Result<(Vec<u8>, String), String>; 2]> = vec![];
    for (text, _) in &progs {
        let mut per = vec![];
        for debug in [false, true] {
            let r = compile_bytes(text, debug).map_err(|p| Failure::new(format!("panic:{}", crate::run::panic_site(&p)), format!("compilation panicked: {p}\n{}", truncate(text, 1500))))?;
            per.push(r);
        }
        reference.push([per[0].clone(), per[1].clone()]);
    }
    for rep in 0..4 {
        for (k, (text, origin)) in progs.iter().enumerate().rev() {
            for (d, debug) in [false, true].into_iter().enumerate() {
                ctx.evals(1);
                let r = compile_bytes(text, debug).map_err(|p| Failure::internal(format!("panic on repetition: {p}")))?;
                if fingerprint(&r) != fingerprint(&reference[k][d]) {
                    return Err(Failure::new(
                        "c19:in-process-compilations-differ",
                        format!("repetition {rep} of the same source (debug={debug}, {origin}) gives {} instead of {}\n{}", fingerprint(&r), fingerprint(&reference[k][d]), truncate(text, 2000)),
                    )
                    .with(json!({"program": text, "debug": debug})));
                }
            }
        }
    }
    // 2. separately started processes (own hash seeds)
    let exe = std::env::current_exe().map_err(|e| Failure::internal(e.to_string()))?;
    let mut children = vec![];
    for _ in 0..n_proc {
        let c = Command::new(&exe).arg("__c19").arg(&dir).arg(CHUNK.to_string()).stdout(std::process::Stdio::piped()).stderr(std::process::Stdio::null()).spawn().map_err(|e| Failure::internal(format!("spawn: {e}")))?;
        children.push(c);
    }
    for (pi, c) in children.into_iter().enumerate() {
        let out = c.wait_with_output().map_err(|e| Failure::internal(e.to_string()))?;
        let text = String::from_utf8_lossy(&out.stdout);
        let mut seen = 0;
        for line in text.lines() {
            let mut it = line.splitn(3, ' ');
            let (Some(k), Some(d), Some(fp)) = (it.next(), it.next(), it.next()) else { continue };
            let (k, d): (usize, usize) = (k.parse().unwrap_or(0), d.parse().unwrap_or(0));
            seen += 1;
            ctx.evals(1);
            let want = fingerprint(&reference[k][d]);
            if fp != want {
                return Err(Failure::new(
                    "c19:processes-disagree",
                    format!("process {pi} compiles {} (debug={}) to {fp}, this process to {want}\n{}", progs[k].1, d == 1, truncate(&progs[k].0, 2000)),
                )
                .with(json!({"program": progs[k].0, "debug": d == 1})));
            }
        }
        if seen != 2 * CHUNK as usize {
            return Err(Failure::internal(format!("child process {pi} reported {seen} results (status {:?})", out.status)));
        }
    }
    // 3. the simc binary
    let simc = simc_path();
    if !simc.exists() {
        return Err(Failure::internal(format!("simc binary not found at {} (run through ./check)", simc.display())));
    }
    for (k, (text, origin)) in progs.iter().enumerate() {
        for (d, debug) in [false, true].into_iter().enumerate() {
            // every program once without --debug; --debug on a third of them (process start-up dominates)
            if debug && (ci * CHUNK + k as u64) % 3 != 0 {
                continue;
            }
            ctx.evals(1);
            let mut cmd = Command::new(&simc);
            cmd.arg(dir.join(format!("p{k}.simf")));
            if debug {
                cmd.arg("--debug");
            }
            let out = cmd.output().map_err(|e| Failure::internal(format!("simc: {e}")))?;
            let stdout = String::from_utf8_lossy(&out.stdout).to_string();
            let stderr = String::from_utf8_lossy(&out.stderr).to_string();
            let detail = json!({"program": text, "debug": debug, "stdout": truncate(&stdout, 500), "stderr": truncate(&stderr, 500), "status": out.status.code()});
            match &reference[k][d] {
                Ok((bytes, _)) => {
                    let want = format!("Program:\n{}\n", Base64Display::new(bytes, &STANDARD));
                    if !out.status.success() || stdout != want {
                        return Err(Failure::new(
                            "c19:simc-output-differs-from-library",
                            format!("simc{} on {origin}: exit {:?}, stdout `{}`; the library's commit encoding is `{}`\n{}", if debug { " --debug" } else { "" }, out.status.code(), truncate(&stdout, 300), truncate(&want, 300), truncate(text, 1500)),
                        )
                        .with(detail));
                    }
                    ctx.label("simc:ok");
                }
                Err(_) => {
                    if out.status.success() || stderr.trim().is_empty() || stdout.contains("Program:") {
                        return Err(Failure::new(
                            "c19:simc-succeeds-where-library-fails",
                            format!("the library returns an error for {origin} but simc exits {:?} with stdout `{}` stderr `{}`\n{}", out.status.code(), truncate(&stdout, 200), truncate(&stderr, 200), truncate(text, 1500)),
                        )
                        .with(detail));
                    }
                    ctx.label("simc:error-as-expected");
                }
            }
        }
    }
    for (k, (text, _)) in progs.iter().enumerate() {
        let rich = text.matches("fn ").count() + text.matches("type ").count() + text.matches("witness::").count() >= 3;
        if rich && reference[k][1].is_ok() {
            ctx.nontrivial(digest(&[text.as_bytes()]));
        }
    }
    let _ = std::fs::remove_dir_all(&dir);
    ctx.sample(ci, || json!({"chunk": ci, "programs": progs.iter().map(|(_, o)| o.clone()).collect::<Vec<_>>(), "processes": n_proc, "first_program": truncate(&progs[0].0, 600)}));
    Ok(())
}

pub fn streams() -> Vec<Stream> {
    vec![Stream {
        name: "chunks",
        kind: Kind::Enum { count: |t: Tier| (seeds::examples().len() as u64 + t.pick(300, 5000)).div_ceil(CHUNK), complete: |_| false, f: e_chunk },
        isolate: false,
    }, Stream { name: "history", kind: Kind::Tape { cases: |t: Tier| t.pick(400, 12_000), max_len: 4000, f: s_history }, isolate: false }]
}

pub fn def() -> PropertyDef {
    PropertyDef {
        id: "C19",
        rule: "programs = the shipped examples + 300 (thorough 5000) generated programs, every fifth one a near-miss edit (often rejected, for the error side), one per chunk a program of 300-700 statements whose encoding is several KiB long, in chunks of 16 x {debug off, on}. Per chunk: 5 in-process compilations of every program (fresh CompiledProgram each, interleaved with the other programs of the chunk) must give identical commit encodings and CMRs; 6 (thorough 32) separately started processes (each with its own hash seeds) must report the same digest of encoding + CMR, or the same error status; `simc FILE [--debug]` built from /repo must print `Program:` + base64 of exactly the library's commit encoding and exit 0 when the library returns Ok, and exit non-zero with a non-empty stderr and no `Program:` line when the library returns Err. stream history: a generated program is compiled (debug off / on), then the same thread compiles 150-400 other sources of which most are rejected at different stages (list bound not a power of two, incompatible match arms, oversized array size, literal out of range, undefined name, grammar error, token mutants and truncations of the program; each nested 0-47 blocks deep), then the program again: same bytes and CMR, or the same error status. evaluations = compilations compared + simc runs. Non-trivial = accepted program with >= 3 functions / aliases / witnesses (so the hash maps have something to reorder), debug on; distinct by digest of the text.",
        assumptions: &["an order dependence whose probability per process is tiny can be missed: N processes only give 1 - 2^-N confidence for a two-way ordering"],
        streams,
        health: &[],
    }
}
