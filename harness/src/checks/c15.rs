//! C15 - values, witness/argument maps and types survive print-parse.

use std::collections::HashMap;

use serde_json::json;
use simfony::parse::ParseFromStr;
use simfony::{Arguments, ResolvedType, Value, WitnessValues};

use crate::checks::common::truncate;
use crate::conv;
use crate::model::{Ty, Val};
use crate::render::{self, Style};
use crate::run::{catch, panic_site, Ctx, Failure, Kind, PropertyDef, Stream, Tier};
use crate::tape::{digest, Tape};
use crate::valgen::{self, TyCfg};

const TYCFG: TyCfg = TyCfg { max_depth: 3, max_tuple: 4, max_array: 6, max_list_log2: 4, allow_builtin_alias: false, big_ints: true };

fn pfail(what: &str, p: &str, input: &str) -> Failure {
    Failure::new(format!("panic:{}", panic_site(p)), format!("{what} panicked: {p}\n{}", truncate(input, 1500)))
}

pub fn value_roundtrip(v: &Val, ty: &Ty, ctx: &mut Ctx) -> Result<(), Failure> {
    ctx.evals(1);
    let rty = conv::to_resolved(ty);
    let sv = conv::to_value(v, ty);
    let text = catch(|| sv.to_string()).map_err(|p| pfail("Value::to_string", &p, &format!("{v:?}")))?;
    let back = catch(|| Value::parse_from_str(&text, &rty).map_err(|e| e.to_string())).map_err(|p| pfail("Value::parse_from_str", &p, &text))?;
    match back {
        Ok(b) if b == sv => Ok(()),
        Ok(b) => Err(Failure::new("c15:value-roundtrip-differs", format!("printed `{text}` at type {rty} parses back to a different value `{b}`")).with(json!({"text": text, "type": rty.to_string()}))),
        Err(e) => Err(Failure::new("c15:printed-value-does-not-parse", format!("printed `{}` at type {rty} does not parse back: {}", truncate(&text, 600), crate::pipe::last_line(&e))).with(json!({"text": text, "type": rty.to_string()}))),
    }
}

fn nontrivial_value(v: &Val, ty: &Ty) -> bool {
    ty.size() >= 2 || v.size() >= 2
}

fn s_values(t: &mut Tape, ctx: &mut Ctx) -> Result<(), Failure> {
    let ty = match t.weighted(&[6, 2, 2]) {
        0 => valgen::gen_ty(t, &TYCFG, 0),
        1 => {
            // byte arrays of every length, possibly nested
            let n = t.index(65);
            let inner = Ty::array(Ty::UInt(8), n);
            match t.weighted(&[3, 2, 2, 2, 1]) {
                0 => inner,
                1 => Ty::array(inner, t.index(4)),
                2 => Ty::Tuple(vec![inner, Ty::UInt(8), Ty::array(Ty::UInt(8), t.index(3))]),
                3 => Ty::option(inner),
                _ => Ty::list(inner, 4),
            }
        }
        _ => {
            let w = *t.pick(crate::model::UINT_WIDTHS.as_slice());
            Ty::UInt(w)
        }
    };
    let small = valgen::all_vals(&ty, 64);
    let vals: Vec<Val> = match small {
        Some(all) => {
            ctx.label("domain:exhaustive");
            all
        }
        None => (0..4).map(|_| valgen::gen_val(t, &ty)).collect(),
    };
    {
        // classes named by the property's quantifier
        let mut flags: Vec<&'static str> = vec![];
        fn walk(ty: &Ty, flags: &mut Vec<&'static str>) {
            match ty.resolved_head() {
                Ty::UInt(b) if *b < 8 => flags.push("class:sub-byte-integer"),
                Ty::UInt(b) if *b >= 128 => flags.push("class:u128-u256"),
                Ty::Array(e, n) => {
                    if matches!(e.resolved_head(), Ty::UInt(8)) {
                        flags.push("class:byte-array");
                        if *n == 0 {
                            flags.push("class:empty-byte-array");
                        }
                    }
                    if *n == 0 {
                        flags.push("class:empty-array");
                    }
                    if *n == 1 {
                        flags.push("class:singleton-array");
                    }
                    if matches!(e.resolved_head(), Ty::Array(i, _) if matches!(i.resolved_head(), Ty::UInt(8))) {
                        flags.push("class:nested-byte-array");
                    }
                    walk(e, flags);
                }
                Ty::List(e, _) => {
                    flags.push("class:list");
                    walk(e, flags);
                }
                Ty::Tuple(ts) => {
                    if ts.is_empty() {
                        flags.push("class:unit");
                    }
                    if ts.len() == 1 {
                        flags.push("class:singleton-tuple");
                    }
                    ts.iter().for_each(|x| walk(x, flags));
                }
                Ty::Option(a) => walk(a, flags),
                Ty::Either(a, b) => {
                    walk(a, flags);
                    walk(b, flags);
                }
                _ => {}
            }
        }
        walk(&ty, &mut flags);
        if vals.iter().any(|v| matches!(v, Val::List(x) if x.is_empty())) {
            flags.push("class:empty-list-value");
        }
        flags.sort();
        flags.dedup();
        for f in flags {
            ctx.label(f);
        }
    }
    for v in &vals {
        value_roundtrip(v, &ty, ctx)?;
        if nontrivial_value(v, &ty) {
            ctx.nontrivial(digest(&[render::val_text(v, &ty).as_bytes(), ty.to_string().as_bytes()]));
        }
    }
    // the type printer
    ctx.evals(1);
    let rty = conv::to_resolved(&ty);
    let ttext = rty.to_string();
    match catch(|| ResolvedType::parse_from_str(&ttext).map_err(|e| e.to_string())).map_err(|p| pfail("ResolvedType::parse_from_str", &p, &ttext))? {
        Ok(b) if b == rty => {}
        other => return Err(Failure::new("c15:type-roundtrip", format!("printed type `{ttext}` parses back to {other:?}")).with(json!({"type": ttext}))),
    }
    let last = vals.last().unwrap();
    ctx.sample(last.size() as u64, || json!({"type": ty.to_string(), "value": truncate(&render::val_text(last, &ty), 400)}));
    Ok(())
}

pub const AWKWARD: &[&str] = &[
    "A", "a", "z9", "X_", "A_B_C", "u8x", "u8_", "u16_pair", "true_x", "false1", "None_", "Some_thing", "Left_", "Right9", "letter", "let_", "fn_", "fnord",
    "matcher", "match_", "typed", "type_", "mod_", "modulo", "const_", "constant", "witness_", "witnesses", "param_", "params", "jet_", "jets", "main_", "mainly",
    "unwrapper", "unwrap_", "unwrap_left_", "is_none_", "assert_", "panic_", "dbg_", "into_", "fold_", "for_while_", "Either_", "Option_", "List_", "bool_", "listing",
    "Fee", "Gem", "Timestamp", "Locker", "Pointer", "Height2", "Ctx8_", "Pubkey_", "Message640", "Signature_", "Scalar_", "Noncense", "Amount1_", "Asset1x", "U8", "BOOL", "Main", "TRUE",
];

pub fn gen_name(t: &mut Tape) -> String {
    if t.chance(1, 2) {
        AWKWARD[t.index(AWKWARD.len())].to_string()
    } else {
        let first = (b'A' + t.index(26) as u8) as char;
        let first = if t.bool() { first.to_ascii_lowercase() } else { first };
        let n = t.index(8);
        let mut s = String::from(first);
        for _ in 0..n {
            s.push(*t.pick(&['a', 'b', 'Z', '0', '9', '_', 'x', 'Q']));
        }
        s
    }
}

fn s_maps(t: &mut Tape, ctx: &mut Ctx) -> Result<(), Failure> {
    let n = t.index(7);
    let mut items: Vec<(String, Val, Ty)> = vec![];
    for _ in 0..n {
        // one name in five is a case twin of an earlier name (`sig` / `SIG` / `Sig`): distinct names
        let name = if !items.is_empty() && t.chance(1, 5) {
            let base = items[t.index(items.len())].0.clone();
            let twin = match t.index(3) {
                0 => base.to_ascii_uppercase(),
                1 => base.to_ascii_lowercase(),
                _ => base.chars().enumerate().map(|(i, c)| if i % 2 == 0 { c.to_ascii_uppercase() } else { c.to_ascii_lowercase() }).collect(),
            };
            if twin != base {
                ctx.label("names:case-twins");
            }
            twin
        } else {
            gen_name(t)
        };
        if crate::tycheck::RESERVED_WORDS.contains(&name.as_str()) || items.iter().any(|(m, _, _)| *m == name) {
            continue;
        }
        let ty = valgen::gen_ty(t, &TyCfg::SMALL, 0);
        let v = valgen::gen_val(t, &ty);
        items.push((name, v, ty));
    }
    let build = |order: &[usize]| -> HashMap<simfony::str::WitnessName, Value> {
        let mut m = HashMap::new();
        for i in order {
            let (n, v, ty) = &items[*i];
            m.insert(conv::name(n), conv::to_value(v, ty));
        }
        m
    };
    let fwd: Vec<usize> = (0..items.len()).collect();
    let rev: Vec<usize> = (0..items.len()).rev().collect();
    let detail = json!(items.iter().map(|(n, v, ty)| format!("{n}: {ty} = {}", render::val_text(v, ty))).collect::<Vec<_>>());
    // modules
    for (modname, is_wit) in [("witness", true), ("param", false)] {
        ctx.evals(2);
        let (text1, text2, back_ok) = if is_wit {
            let a = WitnessValues::from(build(&fwd));
            let b = WitnessValues::from(build(&rev));
            let t1 = catch(|| a.to_string()).map_err(|p| pfail("WitnessValues::to_string", &p, ""))?;
            let t2 = b.to_string();
            let back = catch(|| WitnessValues::parse_from_str(&t1).map_err(|e| e.to_string())).map_err(|p| pfail("WitnessValues::parse_from_str", &p, &t1))?;
            (t1, t2, back.map(|x| x == a))
        } else {
            let a = Arguments::from(build(&fwd));
            let b = Arguments::from(build(&rev));
            let t1 = catch(|| a.to_string()).map_err(|p| pfail("Arguments::to_string", &p, ""))?;
            let t2 = b.to_string();
            let back = catch(|| Arguments::parse_from_str(&t1).map_err(|e| e.to_string())).map_err(|p| pfail("Arguments::parse_from_str", &p, &t1))?;
            (t1, t2, back.map(|x| x == a))
        };
        match back_ok {
            Ok(true) => {}
            Ok(false) => return Err(Failure::new("c15:module-roundtrip-differs", format!("mod {modname}: printed module parses back to a different map\n{text1}")).with(detail.clone())),
            Err(e) => return Err(Failure::new("c15:printed-module-does-not-parse", format!("mod {modname}: printed module does not parse: {}\n{text1}", crate::pipe::last_line(&e))).with(detail.clone())),
        }
        if text1 != text2 {
            return Err(Failure::new("c15:module-printing-depends-on-insertion-order", format!("the same map prints differently when built in another order:\n{text1}\n---\n{text2}")).with(detail.clone()));
        }
        // names sorted
        let printed_names: Vec<&str> = text1.lines().filter_map(|l| l.trim().strip_prefix("const ")).filter_map(|l| l.split(':').next()).collect();
        // "sorted": byte order, or a case-insensitive order with byte order as tie-break
        let mut sorted = printed_names.clone();
        sorted.sort();
        let mut sorted_ci = printed_names.clone();
        sorted_ci.sort_by(|a, b| a.to_lowercase().cmp(&b.to_lowercase()).then(a.cmp(b)));
        if (printed_names != sorted && printed_names != sorted_ci) || printed_names.len() != items.len() {
            return Err(Failure::new("c15:module-names-not-sorted", format!("names are not listed once each in sorted order:\n{text1}")).with(detail.clone()));
        }
    }
    // own module text (other layout, other order) parses to the same map
    {
        ctx.evals(1);
        let style = Style::from_seed(t.next() as u64);
        let mut shuffled = items.clone();
        if shuffled.len() >= 2 {
            let i = t.index(shuffled.len());
            shuffled.swap(0, i);
        }
        // values wrapped in redundant parentheses at random places (constants are expressions)
        let mut bits = t.next();
        let paren_items: Vec<(String, Val, Ty)> = shuffled.clone();
        let text = {
            let mut w = render::Writer::new(style.clone());
            w.t("mod");
            w.must_space();
            w.t("witness");
            w.t("{");
            for (n, v, ty) in &paren_items {
                w.nl();
                w.t("const");
                w.must_space();
                w.t(n);
                w.g(":");
                w.ty(ty);
                w.t("=");
                let mut e = render::val_to_expr(v, ty, style.byte_arrays_as_hex);
                crate::rename::wrap_expr(&mut e, &mut || {
                    bits = bits.rotate_left(3).wrapping_mul(2654435761).wrapping_add(12345);
                    bits % 5 == 0
                });
                w.expr(&e, Some(ty));
                w.g(";");
            }
            w.nl();
            w.t("}");
            w.out
        };
        let expect = WitnessValues::from(build(&fwd));
        match catch(|| WitnessValues::parse_from_str(&text).map_err(|e| e.to_string())).map_err(|p| pfail("WitnessValues::parse_from_str", &p, &text))? {
            Ok(m) if m == expect => {}
            Ok(_) => return Err(Failure::new("c15:module-text-parses-to-other-map", format!("hand-rendered module parses to a different map\n{text}")).with(detail.clone())),
            Err(e) => return Err(Failure::new("c15:valid-module-rejected", format!("a valid module text is rejected: {}\n{text}", crate::pipe::last_line(&e))).with(detail.clone())),
        }
        // a name assigned twice is rejected
        if !items.is_empty() {
            ctx.evals(1);
            let i = t.index(items.len());
            let mut dup = items.clone();
            let mut extra = items[i].clone();
            if t.bool() {
                extra.1 = valgen::gen_val(t, &extra.2);
            }
            let at = t.index(dup.len() + 1);
            dup.insert(at, extra);
            let text = render::module_text("witness", &dup, &Style::canonical());
            if let Ok(Ok(_)) = catch(|| WitnessValues::parse_from_str(&text)) {
                return Err(Failure::new("c15:duplicate-name-in-module-accepted", format!("a module that assigns `{}` twice is accepted\n{text}", items[i].0)).with(detail.clone()));
            }
            ctx.label("duplicate:module");
        }
    }
    // JSON
    {
        ctx.evals(2);
        let a = WitnessValues::from(build(&fwd));
        let js = catch(|| serde_json::to_string(&a).map_err(|e| e.to_string())).map_err(|p| pfail("serde_json::to_string", &p, ""))?;
        let js = js.map_err(|e| Failure::new("c15:json-serialize-fails", e))?;
        match catch(|| serde_json::from_str::<WitnessValues>(&js).map_err(|e| e.to_string())).map_err(|p| pfail("serde_json::from_str", &p, &js))? {
            Ok(b) if b == a => {}
            Ok(_) => return Err(Failure::new("c15:json-roundtrip-differs", format!("JSON round trip gives another map\n{js}")).with(detail.clone())),
            Err(e) => return Err(Failure::new("c15:printed-json-does-not-parse", format!("{e}\n{js}")).with(detail.clone())),
        }
        let aa = Arguments::from(build(&rev));
        let js2 = serde_json::to_string(&aa).map_err(|e| Failure::new("c15:json-serialize-fails", e.to_string()))?;
        match catch(|| serde_json::from_str::<Arguments>(&js2).map_err(|e| e.to_string())).map_err(|p| pfail("serde_json::from_str", &p, &js2))? {
            Ok(b) if b == aa => {}
            other => return Err(Failure::new("c15:json-roundtrip-differs", format!("JSON round trip (Arguments) gives {:?}\n{js2}", other.map(|_| "another map"))).with(detail.clone())),
        }
        if !items.is_empty() {
            // hand-written JSON (own printer); control: without the duplicate it parses to the same map
            let entry = |n: &str, v: &Val, ty: &Ty| format!("\"{n}\": {{\"value\": \"{}\", \"type\": \"{}\"}}", render::val_text(v, ty), ty.resolve());
            let entries: Vec<String> = items.iter().map(|(n, v, ty)| entry(n, v, ty)).collect();
            let plain = format!("{{{}}}", entries.join(", "));
            match catch(|| serde_json::from_str::<WitnessValues>(&plain).map_err(|e| e.to_string())).map_err(|p| pfail("serde_json::from_str", &p, &plain))? {
                Ok(m) if m == a => {}
                other => return Err(Failure::new("c15:valid-json-rejected", format!("hand-written JSON is not read back as the same map ({:?})\n{plain}", other.map(|_| "another map"))).with(detail.clone())),
            }
            let (n, v, ty) = &items[t.index(items.len())];
            let mut dup = entries.clone();
            let dv = if t.bool() { v.clone() } else { valgen::gen_val(t, ty) };
            let at = t.index(dup.len() + 1);
            dup.insert(at, entry(n, &dv, ty));
            let dupjs = format!("{{{}}}", dup.join(", "));
            if let Ok(Ok(_)) = catch(|| serde_json::from_str::<WitnessValues>(&dupjs)) {
                return Err(Failure::new("c15:duplicate-name-in-json-accepted", format!("a JSON file that assigns `{n}` twice is accepted\n{dupjs}")).with(detail.clone()));
            }
            if let Ok(Ok(_)) = catch(|| serde_json::from_str::<Arguments>(&dupjs)) {
                return Err(Failure::new("c15:duplicate-name-in-json-accepted", format!("a JSON argument file that assigns `{n}` twice is accepted\n{dupjs}")).with(detail.clone()));
            }
            ctx.label("duplicate:json");
        }
    }
    if items.len() >= 2 {
        ctx.nontrivial(digest(&[detail.to_string().as_bytes()]));
    }
    ctx.sample(items.len() as u64, || detail.clone());
    Ok(())
}

const BIG_SIZES: [&str; 9] = ["65536", "2147483648", "4294967295", "4294967296", "4294967297", "1099511627776", "9223372036854775808", "18446744073709551615", "1000000007"];
const BIG_BOUNDS: [&str; 5] = ["65536", "2147483648", "4294967296", "1099511627776", "9223372036854775808"];

/// Types whose declared array size / list bound is large, and values of such types that can be
/// written down without building the array (None, empty list): print-parse round trips. Driven
/// through text only; nothing here allocates by the declared size.
fn e_big_sizes(i: u64, ctx: &mut Ctx) -> Result<(), Failure> {
    let elems = ["u8", "u16", "bool", "(u8, bool)"];
    let n_arr = (BIG_SIZES.len() * elems.len()) as u64;
    let (inner, what) = if i < n_arr {
        (format!("[{}; {}]", elems[(i as usize) % elems.len()], BIG_SIZES[(i as usize) / elems.len()]), "array")
    } else {
        let k = (i - n_arr) as usize;
        (format!("List<{}, {}>", elems[k % elems.len()], BIG_BOUNDS[(k / elems.len()) % BIG_BOUNDS.len()]), "list")
    };
    let pf = |what: &str, p: &str, s: &str| Failure::new(format!("panic:{}", panic_site(p)), format!("{what} panicked on `{s}`: {p}"));
    // the type itself, and wrapped
    for (wrapped, value) in [(inner.clone(), None), (format!("Option<{inner}>"), Some("None")), (format!("List<{inner}, 2>"), Some("list![]")), (format!("Either<u8, {inner}>"), Some("Left(7)")), (format!("[{inner}; 0]"), Some("[]"))] {
        if what == "list" && value.is_none() {
            // an empty list is a value of the bare list type
        }
        ctx.evals(1);
        let ty = match catch(|| ResolvedType::parse_from_str(&wrapped)).map_err(|p| pf("ResolvedType::parse_from_str", &p, &wrapped))? {
            Ok(t) => t,
            Err(e) => return Err(Failure::new("c15:valid-type-rejected", format!("the type `{wrapped}` is rejected: {}", crate::pipe::last_line(&e.to_string()))).with(json!({"type": wrapped}))),
        };
        let printed = catch(|| ty.to_string()).map_err(|p| pf("ResolvedType::to_string", &p, &wrapped))?;
        match catch(|| ResolvedType::parse_from_str(&printed)).map_err(|p| pf("ResolvedType::parse_from_str", &p, &printed))? {
            Ok(t2) if t2 == ty => {}
            Ok(t2) => return Err(Failure::new("c15:type-roundtrip-differs", format!("`{wrapped}` prints as `{printed}`, which parses to `{t2}`")).with(json!({"type": wrapped}))),
            Err(e) => return Err(Failure::new("c15:printed-type-does-not-parse", format!("`{wrapped}` prints as `{printed}`, which is rejected: {}", crate::pipe::last_line(&e.to_string()))).with(json!({"type": wrapped}))),
        }
        let value = match (value, what) {
            (None, "list") => Some("list![]"),
            (v, _) => v,
        };
        let Some(vtext) = value else { continue };
        ctx.evals(1);
        let v = match catch(|| Value::parse_from_str(vtext, &ty)).map_err(|p| pf("Value::parse_from_str", &p, vtext))? {
            Ok(v) => v,
            Err(e) => return Err(Failure::new("c15:valid-value-rejected", format!("`{vtext}` at `{wrapped}` is rejected: {}", crate::pipe::last_line(&e.to_string()))).with(json!({"type": wrapped, "value": vtext}))),
        };
        let vp = catch(|| v.to_string()).map_err(|p| pf("Value::to_string", &p, vtext))?;
        match catch(|| Value::parse_from_str(&vp, &ty)).map_err(|p| pf("Value::parse_from_str", &p, &vp))? {
            Ok(v2) if v2 == v => {}
            other => return Err(Failure::new("c15:printed-value-does-not-parse", format!("`{vtext}` at `{wrapped}` prints as `{vp}`, which parses to {:?}", other.map(|x| x.to_string()).map_err(|e| e.to_string()))).with(json!({"type": wrapped}))),
        }
        // a module holding it
        let mut m = HashMap::new();
        m.insert(simfony::str::WitnessName::from_str_unchecked("A"), v.clone());
        let wv = WitnessValues::from(m);
        let text = catch(|| wv.to_string()).map_err(|p| pf("WitnessValues::to_string", &p, &wrapped))?;
        ctx.evals(1);
        match catch(|| WitnessValues::parse_from_str(&text)).map_err(|p| pf("WitnessValues::parse_from_str", &p, &text))? {
            Ok(w2) if w2 == wv => {}
            Ok(_) => return Err(Failure::new("c15:module-roundtrip-differs", format!("the printed module parses to another map\n{text}")).with(json!({"module": text}))),
            Err(e) => return Err(Failure::new("c15:printed-module-does-not-parse", format!("the printed module is rejected: {}\n{text}", crate::pipe::last_line(&e.to_string()))).with(json!({"module": text}))),
        }
        let js = catch(|| serde_json::to_string(&wv).map_err(|e| e.to_string())).map_err(|p| pf("serde_json::to_string", &p, &wrapped))?;
        if let Ok(js) = js {
            ctx.evals(1);
            match catch(|| serde_json::from_str::<WitnessValues>(&js).map_err(|e| e.to_string())).map_err(|p| pf("serde_json::from_str", &p, &js))? {
                Ok(w2) if w2 == wv => {}
                Ok(_) => return Err(Failure::new("c15:json-roundtrip-differs", format!("the JSON form parses to another map\n{js}")).with(json!({"json": js}))),
                Err(e) => return Err(Failure::new("c15:printed-json-does-not-parse", format!("the JSON form is rejected: {e}\n{js}")).with(json!({"json": js}))),
            }
        }
    }
    ctx.label(&format!("big-size:{what}"));
    ctx.nontrivial(digest(&[inner.as_bytes()]));
    ctx.sample(i, || json!({"type": inner}));
    Ok(())
}

pub fn streams() -> Vec<Stream> {
    vec![
        Stream { name: "values", kind: Kind::Tape { cases: |t: Tier| t.pick(800_000, 16_000_000), max_len: 200, f: s_values }, isolate: false },
        Stream { name: "maps", kind: Kind::Tape { cases: |t: Tier| t.pick(100_000, 2_000_000), max_len: 200, f: s_maps }, isolate: false },
        Stream { name: "big-sizes", kind: Kind::Enum { count: |_| (BIG_SIZES.len() * 4 + BIG_BOUNDS.len() * 4) as u64, complete: |_| true, f: e_big_sizes }, isolate: false },
    ]
}

pub fn def() -> PropertyDef {
    PropertyDef {
        id: "C15",
        rule: "stream values: types up to depth 3 over all constructors (tuples <= 4, arrays <= 6, lists <= 16), byte arrays of every length 0..64 alone / nested / inside tuples, options and lists, every integer width; all values when the type has <= 64, else 4 generated ones (boundary-biased); values are built with the Rust constructors. Oracles: Value::parse_from_str(v.to_string(), type) == v; ResolvedType::parse_from_str(ty.to_string()) == ty. stream maps: maps of 0..6 names (random identifiers, half of them reserved words extended by a suffix or with other case) -> printed module parses back to an equal map (WitnessValues and Arguments), prints identically when built in another insertion order (separate HashMaps have separate hash keys), lists names once each in sorted order; a hand-rendered module in another layout and order parses to the same map; a module / JSON text assigning one name twice is rejected; serde_json round trip. stream big-sizes (56 types, complete): array sizes {65536, 2^31, 2^32-1, 2^32, 2^32+1, 2^40, 2^63, 2^64-1, 1000000007} and list bounds {2^16, 2^31, 2^32, 2^40, 2^63} x 4 element types, bare and wrapped in Option / List / Either / [..; 0]: type round trip, and value / module / JSON round trips of the values that can be written without building the array (None, list![], Left(7), []); text-driven, nothing allocates by the declared size. evaluations = round trips. Non-trivial = value with >= 2 constructors / map with >= 2 names; distinct by digest.",
        assumptions: &["cross-process determinism of the printer is exercised by C19's process runs"],
        streams,
        health: &[("values", "domain:exhaustive", 20)],
    }
}
