//! C10 - a variable denotes its nearest, most recent binding.

use std::collections::HashMap;

use serde_json::json;

use crate::checks::c01::check_maps;
use crate::checks::common::*;
use crate::eval;
use crate::gen::Generated;
use crate::mb::*;
use crate::model::*;
use crate::render::{self, Style};
use crate::run::{Ctx, Failure, Kind, PropertyDef, Stream, Tier};
use crate::tape::{digest, Tape};

/// Source of choices: a tape (random deep skeletons) or an odometer (exhaustive enumeration).
pub trait Chooser {
    fn choose(&mut self, n: usize) -> usize;
}

impl Chooser for Tape {
    fn choose(&mut self, n: usize) -> usize {
        self.index(n)
    }
}

/// Replays a fixed path of digits, recording the radix at each position.
pub struct Odometer {
    pub digits: Vec<usize>,
    pub radices: Vec<usize>,
    pos: usize,
}

impl Odometer {
    pub fn new(digits: Vec<usize>) -> Self {
        Odometer { digits, radices: vec![], pos: 0 }
    }
    /// Next path in depth-first order, or None when exhausted.
    pub fn next_path(&self) -> Option<Vec<usize>> {
        let mut d: Vec<usize> = (0..self.radices.len()).map(|i| self.digits.get(i).copied().unwrap_or(0)).collect();
        let mut i = d.len();
        while i > 0 {
            i -= 1;
            if d[i] + 1 < self.radices[i] {
                d[i] += 1;
                d.truncate(i + 1);
                return Some(d);
            }
        }
        None
    }
}

impl Chooser for Odometer {
    fn choose(&mut self, n: usize) -> usize {
        let d = self.digits.get(self.pos).copied().unwrap_or(0);
        self.radices.push(n.max(1));
        self.pos += 1;
        d.min(n.saturating_sub(1))
    }
}

#[derive(Clone, Copy)]
pub struct Bounds {
    pub max_depth: usize,
    pub top_items: usize,
    pub inner_items: usize,
    pub rich_patterns: bool,
    /// patterns below the top level are single leaves
    pub inner_single: bool,
    /// main starts with one `let PAT = tags` item before the counted items
    pub prefix_let: bool,
    /// bindings are u8 or u16 (so that a typing-side scoping error shows as a rejection)
    pub mixed_types: bool,
}

struct Sk<'c> {
    c: &'c mut dyn Chooser,
    b: Bounds,
    next_tag: u128,
    next_hole: usize,
    uses_fn: bool,
    shadowing_matters: bool,
}

const NAMES: [&str; 2] = ["a", "b"];

impl<'c> Sk<'c> {
    fn bits(&mut self) -> u16 {
        if self.b.mixed_types && self.c.choose(2) == 1 {
            16
        } else {
            8
        }
    }
    fn tag(&mut self, bits: u16) -> Expr {
        self.next_tag += 1;
        int(self.next_tag % 250 + 1, bits)
    }
    fn hole(&mut self) -> Expr {
        let h = Expr::Hole(self.next_hole);
        self.next_hole += 1;
        h
    }
    fn use_stmt(&mut self, name: &(String, u16)) -> Stmt {
        let h = self.hole();
        assert_(jet(&format!("eq_{}", name.1), vec![var(&name.0), h]))
    }
    /// an expression of type u<bits>: a name of that type in scope or a fresh tag
    fn atom(&mut self, scope: &[(String, u16)], bits: u16) -> Expr {
        let cands: Vec<&(String, u16)> = scope.iter().filter(|x| x.1 == bits).collect();
        let k = self.c.choose(cands.len() + 1);
        if k < cands.len() {
            var(&cands[k].0)
        } else {
            self.tag(bits)
        }
    }
    /// patterns over {a, b, _} with at most three leaves, no repeated name
    fn pattern(&mut self, depth: usize) -> (Pat, Ty, Expr, Vec<(String, u16)>) {
        let leaf = |i: usize| -> Pat {
            match i {
                0 => pid("a"),
                1 => pid("b"),
                _ => Pat::Ignore,
            }
        };
        // shapes: 0 single, 1 (x,y), 2 [x,y], 3 (x,(y,z)), 4 (x,y,z), 5 [x,y,z], 6 (x,[y,z]), 7 ([x,y],z), 8 ((x,y),z), 9 (w,x,y,z), 10 [w,x,y,z], 11 (v,w,x,y,z)
        let n_shapes = if depth > 1 && self.b.inner_single { 1 } else if self.b.rich_patterns { 12 } else { 3 };
        let shape = self.c.choose(n_shapes);
        let n_leaves = match shape {
            0 => 1,
            1 | 2 => 2,
            9 | 10 => 4,
            11 => 5,
            _ => 3,
        };
        // choose leaves without repeating a name: encode as choices among remaining options
        let mut leaves = vec![];
        let mut used = [false, false];
        for _ in 0..n_leaves {
            let mut opts = vec![];
            if !used[0] {
                opts.push(0);
            }
            if !used[1] {
                opts.push(1);
            }
            opts.push(2);
            let k = opts[self.c.choose(opts.len())];
            if k < 2 {
                used[k] = true;
            }
            leaves.push(k);
        }
        // arrays are homogeneous; tuple leaves may have different widths
        let array_shape = shape == 2 || shape == 5 || shape == 10;
        let first_bits = self.bits();
        let mut widths: Vec<u16> = (0..n_leaves).map(|i| if array_shape || i == 0 { first_bits } else { self.bits() }).collect();
        if shape == 6 {
            widths[2] = widths[1];
        }
        if shape == 7 {
            widths[1] = widths[0];
        }
        let names: Vec<(String, u16)> = leaves.iter().zip(&widths).filter(|(k, _)| **k < 2).map(|(k, w)| (NAMES[*k].to_string(), *w)).collect();
        let tags: Vec<Expr> = widths.iter().map(|w| self.tag(*w)).collect();
        let tys: Vec<Ty> = widths.iter().map(|w| u(*w)).collect();
        let (p, ty, e) = match shape {
            0 => (leaf(leaves[0]), tys[0].clone(), tags[0].clone()),
            1 => (Pat::Tuple(vec![leaf(leaves[0]), leaf(leaves[1])]), Ty::Tuple(tys.clone()), tuple(tags)),
            2 => (Pat::Array(vec![leaf(leaves[0]), leaf(leaves[1])]), Ty::array(tys[0].clone(), 2), Expr::Array(tags)),
            3 => (
                Pat::Tuple(vec![leaf(leaves[0]), Pat::Tuple(vec![leaf(leaves[1]), leaf(leaves[2])])]),
                Ty::Tuple(vec![tys[0].clone(), Ty::Tuple(vec![tys[1].clone(), tys[2].clone()])]),
                tuple(vec![tags[0].clone(), tuple(vec![tags[1].clone(), tags[2].clone()])]),
            ),
            4 => (Pat::Tuple(vec![leaf(leaves[0]), leaf(leaves[1]), leaf(leaves[2])]), Ty::Tuple(tys.clone()), tuple(tags)),
            6 => (
                Pat::Tuple(vec![leaf(leaves[0]), Pat::Array(vec![leaf(leaves[1]), leaf(leaves[2])])]),
                Ty::Tuple(vec![tys[0].clone(), Ty::array(tys[1].clone(), 2)]),
                tuple(vec![tags[0].clone(), Expr::Array(vec![tags[1].clone(), tags[2].clone()])]),
            ),
            7 => (
                Pat::Tuple(vec![Pat::Array(vec![leaf(leaves[0]), leaf(leaves[1])]), leaf(leaves[2])]),
                Ty::Tuple(vec![Ty::array(tys[0].clone(), 2), tys[2].clone()]),
                tuple(vec![Expr::Array(vec![tags[0].clone(), tags[1].clone()]), tags[2].clone()]),
            ),
            9 | 11 => (Pat::Tuple(leaves.iter().map(|l| leaf(*l)).collect()), Ty::Tuple(tys.clone()), tuple(tags)),
            10 => (Pat::Array(leaves.iter().map(|l| leaf(*l)).collect()), Ty::array(tys[0].clone(), 4), Expr::Array(tags)),
            8 => (
                Pat::Tuple(vec![Pat::Tuple(vec![leaf(leaves[0]), leaf(leaves[1])]), leaf(leaves[2])]),
                Ty::Tuple(vec![Ty::Tuple(vec![tys[0].clone(), tys[1].clone()]), tys[2].clone()]),
                tuple(vec![tuple(vec![tags[0].clone(), tags[1].clone()]), tags[2].clone()]),
            ),
            _ => (Pat::Array(vec![leaf(leaves[0]), leaf(leaves[1]), leaf(leaves[2])]), Ty::array(tys[0].clone(), 3), Expr::Array(tags)),
        };
        (p, ty, e, names)
    }

    fn items(&mut self, scope: &mut Vec<(String, u16)>, depth: usize, max_items: usize, out: &mut Vec<Stmt>) {
        let n = self.c.choose(max_items + 1);
        for _ in 0..n {
            self.item(scope, depth, out);
        }
    }

    fn item(&mut self, scope: &mut Vec<(String, u16)>, depth: usize, out: &mut Vec<Stmt>) {
        let can_nest = depth < self.b.max_depth;
        // 0 let pattern, 1 use, 2 let x = {block}, 3 match Some(tag) {Some(x) => {..}}, 4 let x = f(u, v), 5 match bool arms
        let n_kinds = if can_nest { 6 } else { 2 };
        match self.c.choose(n_kinds) {
            0 => {
                let (p, ty, e, names) = self.pattern(depth);
                for n in &names {
                    if scope.iter().any(|m| m.0 == n.0) {
                        self.shadowing_matters = true;
                    }
                }
                out.push(Stmt::Let(p, ty, e));
                for n in names {
                    scope.retain(|m| m.0 != n.0);
                    scope.push(n);
                }
            }
            1 => {
                if scope.is_empty() {
                    let t = self.tag(8);
                    out.push(let_pat(Pat::Ignore, u(8), t));
                } else {
                    let n = scope[self.c.choose(scope.len())].clone();
                    out.push(self.use_stmt(&n));
                }
            }
            2 => {
                // let x: u8 = { items; atom };  -- the block sees the outer bindings, its own vanish afterwards
                let x = NAMES[self.c.choose(2)].to_string();
                let w = self.bits();
                let mut inner_scope = scope.clone();
                let mut stmts = vec![];
                self.items(&mut inner_scope, depth + 1, self.b.inner_items, &mut stmts);
                let res = self.atom(&inner_scope, w);
                if inner_scope != *scope {
                    self.shadowing_matters = true;
                }
                out.push(let_(&x, u(w), block(stmts, Some(res))));
                scope.retain(|m| m.0 != x);
                scope.push((x, w));
            }
            3 => {
                // match Some(v) { Some(x: u8) => { items }, None => { items } };
                let x = NAMES[self.c.choose(2)].to_string();
                let scrut_is_some = self.c.choose(2) == 0;
                let w = self.bits();
                let v = self.atom(scope, w);
                let mut s1 = scope.clone();
                if s1.iter().any(|m| m.0 == x) {
                    self.shadowing_matters = true;
                }
                s1.retain(|m| m.0 != x);
                s1.push((x.clone(), w));
                let mut some_body = vec![];
                self.items(&mut s1, depth + 1, self.b.inner_items, &mut some_body);
                for n in s1.clone() {
                    let u_ = self.use_stmt(&n);
                    some_body.push(u_);
                }
                let mut s2 = scope.clone();
                let mut none_body = vec![];
                self.items(&mut s2, depth + 1, 1, &mut none_body);
                let scrut = if scrut_is_some { Expr::Some(Box::new(v)) } else { Expr::None };
                let m = Expr::Match {
                    kind: MatchKind::Option,
                    scrut: Box::new(scrut),
                    left: Box::new(Arm { binder: None, body: block(none_body, None) }),
                    right: Box::new(Arm { binder: Some((x, u(w))), body: block(some_body, None) }),
                    left_first: self.c.choose(2) == 0,
                };
                out.push(Stmt::Expr(m));
            }
            4 => {
                // let x: u8 = f(u, v): the function body sees only its parameters (named a and b)
                self.uses_fn = true;
                let x = NAMES[self.c.choose(2)].to_string();
                let fname = ["f_ab", "f_ba"][self.c.choose(2)];
                let u_ = self.atom(scope, 8);
                let v = self.atom(scope, 8);
                out.push(let_(&x, u(8), call(fname, vec![u_, v])));
                self.shadowing_matters = true;
                scope.retain(|m| m.0 != x);
                scope.push((x, 8));
            }
            _ => {
                // match bool: both arms are blocks with their own bindings; Either arm binder shadows
                let x = NAMES[self.c.choose(2)].to_string();
                let left_taken = self.c.choose(2) == 0;
                let (wl, wr) = (self.bits(), self.bits());
                let v = self.atom(scope, if left_taken { wl } else { wr });
                let mut s1 = scope.clone();
                if s1.iter().any(|m| m.0 == x) {
                    self.shadowing_matters = true;
                }
                s1.retain(|m| m.0 != x);
                s1.push((x.clone(), wl));
                let mut lb = vec![];
                self.items(&mut s1, depth + 1, self.b.inner_items, &mut lb);
                for n in s1.clone() {
                    let u_ = self.use_stmt(&n);
                    lb.push(u_);
                }
                let mut s2 = scope.clone();
                let y = if x == "a" { "b" } else { "a" }.to_string();
                s2.retain(|m| m.0 != y);
                s2.push((y.clone(), wr));
                let mut rb = vec![];
                for n in s2.clone() {
                    let u_ = self.use_stmt(&n);
                    rb.push(u_);
                }
                let scrut = if left_taken { Expr::Left(Box::new(v)) } else { Expr::Right(Box::new(v)) };
                out.push(Stmt::Expr(match_either(scrut, &x, u(wl), block(lb, None), &y, u(wr), block(rb, None))));
            }
        }
    }
}

pub fn skeleton(c: &mut dyn Chooser, b: Bounds) -> (Program, bool) {
    let mut sk = Sk { c, b, next_tag: 0, next_hole: 0, uses_fn: false, shadowing_matters: false };
    let mut scope: Vec<(String, u16)> = vec![];
    let mut stmts = vec![];
    if b.prefix_let {
        let (p, ty, e, names) = sk.pattern(1);
        stmts.push(Stmt::Let(p, ty, e));
        scope.extend(names);
    }
    let n = 1 + sk.c.choose(b.top_items);
    for _ in 0..n {
        sk.item(&mut scope, 1, &mut stmts);
    }
    // observe every name that is in scope at the end
    for nme in scope.clone() {
        let u_ = sk.use_stmt(&nme);
        stmts.push(u_);
    }
    let mut items = vec![];
    if sk.uses_fn {
        // the bodies use their parameters (and shadow one of them) but can never see main's variables
        items.push(func(
            "f_ab",
            vec![("a", u(8)), ("b", u(8))],
            u(8),
            block(vec![let_("b", u(8), jet("xor_8", vec![var("a"), var("b")]))], Some(jet("max_8", vec![var("b"), int(3, 8)]))),
        ));
        items.push(func("f_ba", vec![("b", u(8)), ("a", u(8))], u(8), block(vec![let_pat(Pat::Tuple(vec![pid("a"), Pat::Ignore]), Ty::Tuple(vec![u(8), u(8)]), tuple(vec![var("b"), var("a")]))], Some(var("a")))));
    }
    items.push(main_fn(stmts));
    (Program { items }, sk.shadowing_matters)
}

fn finish(prog: Program) -> (Generated, String) {
    let n_holes = count_holes(&prog);
    let (filled, verdict) = eval::fill_holes(&prog, &HashMap::new(), &HashMap::new(), vec![false; n_holes]);
    let g = Generated { prog: filled, witnesses: vec![], params: vec![], labels: Default::default(), intended_verdict: verdict, n_holes, perturbed: false };
    let text = render::render(&g.prog, &Style::canonical());
    (g, text)
}

fn run_one(prog: Program, matters: bool, ctx: &mut Ctx, origin: &str) -> Result<(), Failure> {
    let (g, text) = finish(prog);
    require_well_typed(&g, &text)?;
    if g.intended_verdict.is_err() {
        return Err(Failure::internal(format!("skeleton does not succeed under the interpreter: {:?}\n{text}", g.intended_verdict)));
    }
    let (ok, _) = check_maps(&g, &text, &[HashMap::new()], ctx, "c10", &[false])?;
    debug_assert!(ok == 1);
    if matters && g.n_holes > 0 {
        ctx.label("shadowing-matters");
        ctx.nontrivial(digest(&[text.as_bytes()]));
    }
    ctx.sample(text.len() as u64, || json!({"origin": origin, "program": truncate(&text, 1200)}));
    Ok(())
}

const FLAT_QUICK: Bounds = Bounds { max_depth: 1, top_items: 3, inner_items: 0, rich_patterns: false, inner_single: true, prefix_let: false, mixed_types: false };
const FLAT_THOROUGH: Bounds = Bounds { max_depth: 1, top_items: 3, inner_items: 0, rich_patterns: true, inner_single: true, prefix_let: false, mixed_types: false };
const NESTED_QUICK: Bounds = Bounds { max_depth: 2, top_items: 1, inner_items: 1, rich_patterns: false, inner_single: true, prefix_let: true, mixed_types: false };
const NESTED_THOROUGH: Bounds = Bounds { max_depth: 3, top_items: 1, inner_items: 1, rich_patterns: false, inner_single: true, prefix_let: true, mixed_types: false };

fn all_paths(b: Bounds, cap: usize) -> (Vec<Vec<usize>>, bool) {
    let mut out = vec![];
    let mut path: Vec<usize> = vec![];
    loop {
        let mut od = Odometer::new(path.clone());
        let _ = skeleton(&mut od, b);
        let full: Vec<usize> = (0..od.radices.len()).map(|i| od.digits.get(i).copied().unwrap_or(0)).collect();
        out.push(full);
        if out.len() >= cap {
            return (out, od.next_path().is_none());
        }
        match od.next_path() {
            Some(p) => path = p,
            None => return (out, true),
        }
    }
}

fn paths(tier: Tier, nested: bool) -> &'static (Vec<Vec<usize>>, bool) {
    static QF: std::sync::OnceLock<(Vec<Vec<usize>>, bool)> = std::sync::OnceLock::new();
    static TF: std::sync::OnceLock<(Vec<Vec<usize>>, bool)> = std::sync::OnceLock::new();
    static QN: std::sync::OnceLock<(Vec<Vec<usize>>, bool)> = std::sync::OnceLock::new();
    static TN: std::sync::OnceLock<(Vec<Vec<usize>>, bool)> = std::sync::OnceLock::new();
    match (tier, nested) {
        (Tier::Quick, false) => QF.get_or_init(|| all_paths(FLAT_QUICK, 100_000)),
        (Tier::Thorough, false) => TF.get_or_init(|| all_paths(FLAT_THOROUGH, 1_000_000)),
        (Tier::Quick, true) => QN.get_or_init(|| all_paths(NESTED_QUICK, 100_000)),
        (Tier::Thorough, true) => TN.get_or_init(|| all_paths(NESTED_THOROUGH, 1_500_000)),
    }
}

fn bounds(tier: Tier, nested: bool) -> Bounds {
    match (tier, nested) {
        (Tier::Quick, false) => FLAT_QUICK,
        (Tier::Thorough, false) => FLAT_THOROUGH,
        (Tier::Quick, true) => NESTED_QUICK,
        (Tier::Thorough, true) => NESTED_THOROUGH,
    }
}

fn e_flat(i: u64, ctx: &mut Ctx) -> Result<(), Failure> {
    let (ps, _) = paths(ctx.tier, false);
    let mut od = Odometer::new(ps[i as usize].clone());
    let (prog, matters) = skeleton(&mut od, bounds(ctx.tier, false));
    run_one(prog, matters, ctx, "enumerated-flat")
}

fn e_nested(i: u64, ctx: &mut Ctx) -> Result<(), Failure> {
    let (ps, _) = paths(ctx.tier, true);
    let mut od = Odometer::new(ps[i as usize].clone());
    let (prog, matters) = skeleton(&mut od, bounds(ctx.tier, true));
    run_one(prog, matters, ctx, "enumerated-nested")
}

fn s_random(t: &mut Tape, ctx: &mut Ctx) -> Result<(), Failure> {
    let b = Bounds { max_depth: 4, top_items: 5, inner_items: 3, rich_patterns: true, inner_single: false, prefix_let: false, mixed_types: true };
    let (prog, matters) = skeleton(t, b);
    run_one(prog, matters, ctx, "random")
}

pub fn streams() -> Vec<Stream> {
    vec![
        Stream { name: "flat", kind: Kind::Enum { count: |t: Tier| paths(t, false).0.len() as u64, complete: |t: Tier| paths(t, false).1, f: e_flat }, isolate: false },
        Stream { name: "nested", kind: Kind::Enum { count: |t: Tier| paths(t, true).0.len() as u64, complete: |t: Tier| paths(t, true).1, f: e_nested }, isolate: false },
        Stream { name: "random", kind: Kind::Tape { cases: |t: Tier| t.pick(40_000, 1_000_000), max_len: 200, f: s_random }, isolate: false },
    ]
}

pub fn def() -> PropertyDef {
    PropertyDef {
        id: "C10",
        rule: "binding skeletons over the names {a, b}: sequences of `let PAT = tags` (patterns over {a,b,_} with <= 3 leaves, tuple and array shapes, no repeated name), uses `assert!(eq_8(x, TAG))` of every name in scope, `let x = { items; atom }`, Option and Either matches whose arm binders shadow and whose bodies end by using every name in scope, calls of functions whose parameters are named (a,b) / (b,a) and which rebind their own parameters; every binding introduces a distinct constant tag; main ends by using every name in scope. flat (complete): every sequence of 1..3 top-level let / use items (quick: 3 pattern shapes, thorough: all 6); nested: one pattern let followed by every single item with nesting depth 2 (thorough: 3), inner patterns single leaves, one inner item per block (complete unless the stated cap is hit, which is reported as exhaustive=false); both by a depth-first odometer over all decision paths; random: tape-decoded skeletons to depth 4 with 5 top / 3 inner items. Oracle: the expected tag of every use comes from the reference interpreter's environment stack (independent lexical resolution); the compiled program must succeed. evaluations = program executions. Non-trivial = at least one binding shadows or leaves scope (nearest binding differs from first binding); distinct by program text.",
        assumptions: &["uses of names that are not in scope are C04's business (must be rejected) and are not generated here"],
        streams,
        health: &[("random", "shadowing-matters", 500)],
    }
}
