//! C13 - jets are callable with documented arity, order and result type.

use std::collections::HashMap;
use std::str::FromStr;
use std::sync::Arc;

use serde_json::json;
use simfony::simplicity::jet::{Elements, Jet};
use simfony::simplicity::node::{CoreConstructible, JetConstructible};
use simfony::simplicity::{types, BitIter, BitMachine, ConstructNode, Value as SimValue};

use crate::checks::common::*;
use crate::eval;
use crate::gen::{cast_partner, Gen, GenCfg, Generated};
use crate::jets::{self, JetSig};
use crate::layout;
use crate::mb::*;
use crate::model::*;
use crate::pipe;
use crate::render::{self, Style};
use crate::run::{catch, panic_site, Ctx, Failure, Kind, PropertyDef, Stream, Tier};
use crate::tape::{digest, splitmix, Tape};
use crate::valgen;

fn all_jets() -> &'static Vec<JetSig> {
    static J: std::sync::OnceLock<Vec<JetSig>> = std::sync::OnceLock::new();
    J.get_or_init(|| jets::table().values().cloned().collect())
}

fn callable() -> &'static Vec<JetSig> {
    static J: std::sync::OnceLock<Vec<JetSig>> = std::sync::OnceLock::new();
    J.get_or_init(|| all_jets().iter().filter(|s| !jets::RESERVED.contains(&s.name.as_str())).cloned().collect())
}

fn with_reference() -> &'static Vec<JetSig> {
    static J: std::sync::OnceLock<Vec<JetSig>> = std::sync::OnceLock::new();
    J.get_or_init(|| callable().iter().filter(|s| jets::has_reference(&s.name)).cloned().collect())
}

fn call_program(name: &str, params: &[Ty], ret: &Ty) -> String {
    let args: Vec<String> = (0..params.len()).map(|i| format!("witness::A{i}")).collect();
    let mut s = String::from("fn main() {\n");
    // bind the witnesses first so that their declared types are the documented parameter types
    for (i, p) in params.iter().enumerate() {
        s.push_str(&format!("    let a{i}: {p} = witness::A{i};\n"));
    }
    let vars: Vec<String> = (0..params.len()).map(|i| format!("a{i}")).collect();
    let _ = args;
    s.push_str(&format!("    let r: {ret} = jet::{name}({});\n}}\n", vars.join(", ")));
    s
}

fn accepted(text: &str) -> Result<bool, Failure> {
    match pipe::new_template(text) {
        Ok(r) => Ok(r.is_ok()),
        Err(p) => Err(Failure::new(format!("panic:{}", panic_site(&p)), format!("TemplateProgram::new panicked: {p}\n{text}"))),
    }
}

/// Signature oracle: the documented call is accepted and compiles; perturbed calls are rejected.
fn e_signatures(i: u64, ctx: &mut Ctx) -> Result<(), Failure> {
    let sig = &all_jets()[i as usize];
    let name = &sig.name;
    let mut tape = Tape::new((0..64).map(|k| splitmix(i * 31 + k) as u32).collect());
    // the table must cover exactly the library's jets (checked once, at index 0)
    if i == 0 {
        let lib: std::collections::BTreeSet<String> = Elements::ALL.iter().map(|j| j.to_string()).collect();
        let tab: std::collections::BTreeSet<String> = all_jets().iter().map(|s| s.name.clone()).collect();
        if lib != tab {
            let missing: Vec<_> = lib.difference(&tab).cloned().collect();
            let extra: Vec<_> = tab.difference(&lib).cloned().collect();
            return Err(Failure::new("c13:jet-set-differs-from-documentation", format!("jets without documented signature: {missing:?}; documented jets that do not exist: {extra:?}")));
        }
    }
    let text = call_program(name, &sig.params, &sig.ret);
    ctx.evals(1);
    if jets::RESERVED.contains(&name.as_str()) {
        if accepted(&text)? {
            return Err(Failure::new("c13:reserved-jet-accepted", format!("jet::{name} is reserved but a call of it is accepted\n{text}")).with(json!({"program": text})));
        }
        ctx.label("reserved-rejected");
        return Ok(());
    }
    if Elements::from_str(name).is_err() {
        return Err(Failure::new("c13:documented-jet-missing", format!("jet {name} does not exist in Elements")));
    }
    // positive: accepted, compiles, commits 1 -> 1, satisfies
    let c = compile(&text, simfony::Arguments::default(), false, "c13").map_err(|f| {
        if f.signature.ends_with(":rejected") {
            Failure::new(format!("c13:documented-call-rejected:{name}"), f.message.clone()).with(json!({"program": text}))
        } else {
            f
        }
    })?;
    let wits: Vec<(String, Val, Ty)> = sig.params.iter().enumerate().map(|(k, p)| (format!("A{k}"), valgen::gen_val(&mut tape, p), p.clone())).collect();
    let out = pipe::satisfy_and_run(&c.program, &c.info, crate::conv::witness_values(&wits), None, &pipe::dummy_env());
    let _ = judge(&out, "c13", &text, &json!(name), false)?;
    // negatives
    let k = sig.params.len();
    let mut negs: Vec<(String, &str)> = vec![];
    if k >= 1 {
        let mut p = sig.params.clone();
        p.pop();
        negs.push((call_program(name, &p, &sig.ret), "one-argument-dropped"));
    }
    {
        let mut p = sig.params.clone();
        p.push(Ty::UInt(8));
        negs.push((call_program(name, &p, &sig.ret), "one-argument-added"));
    }
    for a in 0..k {
        for b in a + 1..k {
            if !sig.params[a].same(&sig.params[b]) {
                let mut p = sig.params.clone();
                p.swap(a, b);
                negs.push((call_program(name, &p, &sig.ret), "differently-typed-arguments-swapped"));
            }
        }
    }
    if let Some(other) = cast_partner(&mut tape, &sig.ret) {
        if !other.same(&sig.ret) {
            negs.push((call_program(name, &sig.params, &other), "result-at-layout-equal-other-type"));
        }
    }
    for (a, p) in sig.params.iter().enumerate() {
        if let Some(other) = cast_partner(&mut tape, p) {
            if !other.same(p) {
                let mut ps = sig.params.clone();
                ps[a] = other;
                negs.push((call_program(name, &ps, &sig.ret), "argument-at-layout-equal-other-type"));
                break;
            }
        }
    }
    for (t, what) in negs {
        ctx.evals(1);
        if accepted(&t)? {
            return Err(Failure::new(format!("c13:wrong-call-accepted:{what}"), format!("jet::{name}: a call with {what} is accepted\n{t}")).with(json!({"program": t, "jet": name})));
        }
        ctx.label(&format!("neg:{what}"));
    }
    if k >= 2 || matches!(sig.ret.resolved_head(), Ty::Tuple(v) if !v.is_empty()) || sig.params.iter().any(|p| matches!(p.resolved_head(), Ty::Tuple(_))) {
        ctx.nontrivial(digest(&[name.as_bytes()]));
    }
    ctx.sample(text.len() as u64, || json!({"jet": name, "program": text}));
    Ok(())
}

/// Asymmetric argument tuple: no two equal arguments of equal type.
fn gen_args(t: &mut Tape, sig: &JetSig, boundary: bool) -> Vec<Val> {
    let mut vals: Vec<Val> = vec![];
    for (i, p) in sig.params.iter().enumerate() {
        let mut v = gen_arg(t, p, boundary);
        for _ in 0..8 {
            let clash = (0..i).any(|j| sig.params[j].same(p) && vals[j] == v);
            if !clash {
                break;
            }
            v = gen_arg(t, p, false);
        }
        vals.push(v);
    }
    vals
}

fn gen_arg(t: &mut Tape, ty: &Ty, boundary: bool) -> Val {
    match ty.resolved_head() {
        Ty::UInt(n) if boundary => {
            // shift-amount-like small values and boundary values
            let max = U256::max_of(*n);
            let small = [0u128, 1, 2, 7, 8, 9, 15, 16, 17, 31, 32, 33, 63, 64, 65, 255];
            match t.weighted(&[3, 2, 2, 2]) {
                0 => Val::UInt(*n, U256 { hi: 0, lo: small[t.index(small.len())] & max.lo }),
                1 => Val::UInt(*n, max),
                2 => Val::UInt(*n, U256::ZERO.flip_bit(n - 1)),
                _ => valgen::gen_val(t, ty),
            }
        }
        Ty::Tuple(ts) => Val::Tuple(ts.iter().map(|x| gen_arg(t, x, boundary)).collect()),
        _ => valgen::gen_val(t, ty),
    }
}

/// Program calling the jet on witnesses and observing the result; holes filled with `expected`.
fn observed_call(sig: &JetSig, args: &[Val], jet_result: Option<Result<Val, ()>>, perturb_salt: u64) -> (Generated, String) {
    let mut tape = Tape::new(vec![]);
    let mut g = Gen::new(&mut tape, GenCfg { max_holes: 300, ..GenCfg::general() });
    let mut stmts = vec![];
    let mut wits = vec![];
    for (i, (p, v)) in sig.params.iter().zip(args).enumerate() {
        stmts.push(let_(&format!("a{i}"), p.clone(), Expr::Witness(format!("A{i}"))));
        wits.push((format!("A{i}"), v.clone(), p.clone()));
    }
    stmts.push(let_("r", sig.ret.clone(), jet(&sig.name, (0..args.len()).map(|i| var(&format!("a{i}"))).collect())));
    g.observe(&var("r"), &sig.ret, &mut stmts, 0);
    let prog = Program { items: vec![main_fn(stmts)] };
    let n_holes = count_holes(&prog);
    let mut pv = vec![false; n_holes];
    let perturbed = n_holes > 0 && perturb_salt % 4 == 0;
    if perturbed {
        pv[(perturb_salt as usize / 4) % n_holes] = true;
    }
    let wm: HashMap<String, Val> = wits.iter().map(|(n, v, _)| (n.clone(), v.clone())).collect();
    let mut jr = HashMap::new();
    if let Some(r) = jet_result {
        jr.insert(sig.name.clone(), r);
    }
    let (filled, verdict) = eval::fill_holes_with(&prog, &wm, &HashMap::new(), pv, jr.clone());
    let gen = Generated { prog: filled, witnesses: wits, params: vec![], labels: Default::default(), intended_verdict: verdict, n_holes, perturbed };
    let text = render::render(&gen.prog, &Style::canonical());
    (gen, text)
}

fn run_observed(g: &Generated, text: &str, jet_result: Option<(String, Result<Val, ()>)>, ctx: &mut Ctx, what: &str) -> Result<Verdict, Failure> {
    // expected verdict from the interpreter (with the externally supplied jet result, if any)
    let wm = g.wit_map();
    let pm = HashMap::new();
    let mut ev = eval::Evaluator::new(&g.prog, &wm, &pm);
    if let Some((n, r)) = jet_result {
        ev.jet_results.insert(n, r);
    }
    let exp = match ev.run() {
        Ok(()) => Verdict::Success,
        Err(eval::Stop::Panic(_)) => Verdict::Fails,
        Err(other) => return Err(Failure::internal(format!("interpreter: {other:?}\n{text}"))),
    };
    ctx.evals(1);
    let c = compile(text, simfony::Arguments::default(), false, what)?;
    let wj = wit_json(g, &wm);
    let out = pipe::satisfy_and_run(&c.program, &c.info, to_witness_values(g, &wm), None, &pipe::dummy_env());
    let got = judge(&out, what, text, &wj, false)?;
    if got != exp {
        return Err(Failure::new(
            format!("{what}:jet-result-differs"),
            format!("expected {exp:?}, the compiled call gives {got:?} ({})\n--- program ---\n{}\n--- arguments ---\n{}", out.brief(), truncate(text, 3000), wj),
        )
        .with(json!({"program": text, "witness": wj})));
    }
    Ok(exp)
}

fn e_closed_form(i: u64, ctx: &mut Ctx) -> Result<(), Failure> {
    let js = with_reference();
    let per = ctx.tier.pick(150, 3000);
    let sig = &js[(i / per) as usize];
    let k = i % per;
    let mut tape = Tape::new((0..200).map(|x| splitmix(i * 1009 + x) as u32).collect());
    let args = gen_args(&mut tape, sig, k % 2 == 0);
    let (g, text) = observed_call(sig, &args, None, splitmix(i));
    let v = run_observed(&g, &text, None, ctx, "c13:closed-form")?;
    ctx.label(if v == Verdict::Success { "run:success" } else { "run:fails" });
    ctx.label(&format!("family:{}", jets::family(&sig.name).0));
    if sig.params.len() >= 2 || sig.params.iter().any(|p| matches!(p.resolved_head(), Ty::Tuple(_))) || matches!(sig.ret.resolved_head(), Ty::Tuple(_)) {
        ctx.nontrivial(digest(&[text.as_bytes()]));
    }
    ctx.sample(text.len() as u64, || json!({"jet": sig.name, "arguments": wit_json(&g, &g.wit_map()), "program": truncate(&text, 700)}));
    Ok(())
}

/// Run the jet directly: `scribe(arguments laid out by the reference layout) ; jet`, no Simfony involved.
fn direct(sig: &JetSig, args: &[Val]) -> Result<Result<Val, ()>, Failure> {
    let jet = Elements::from_str(&sig.name).map_err(|_| Failure::internal(format!("no jet {}", sig.name)))?;
    let arg_ty = Ty::Tuple(sig.params.clone());
    let arg_val = Val::Tuple(args.to_vec());
    let bits = layout::val_bits_padded(&arg_val, &arg_ty);
    let src_final = jet.source_ty().to_final();
    if src_final.bit_width() != bits.len() {
        return Err(Failure::new(
            format!("c13:documented-parameters-do-not-fit-the-jet:{}", sig.name),
            format!("jet {} takes {} bits, the documented parameters {} lay out to {} bits", sig.name, src_final.bit_width(), arg_ty, bits.len()),
        ));
    }
    let bytes: Vec<u8> = bits.chunks(8).map(|c| c.iter().enumerate().fold(0u8, |b, (i, x)| b | ((*x as u8) << (7 - i)))).collect();
    let r = catch(|| -> Result<Result<Vec<bool>, ()>, String> {
        let mut it = BitIter::from(bytes.into_iter());
        let input = SimValue::from_padded_bits(&mut it, &src_final).map_err(|_| "early end of bit stream".to_string())?;
        let ctx = types::Context::new();
        let scribe = Arc::<ConstructNode<Elements>>::scribe(&ctx, &input);
        let j = Arc::<ConstructNode<Elements>>::jet(&ctx, jet);
        let prog = Arc::<ConstructNode<Elements>>::comp(&scribe, &j).map_err(|e| e.to_string())?;
        let redeem = prog.finalize_unpruned().map_err(|e| e.to_string())?;
        let mut mac = BitMachine::for_program(&redeem).map_err(|e| e.to_string())?;
        match mac.exec(&redeem, &pipe::dummy_env()) {
            Ok(v) => Ok(Ok(v.iter_padded().collect())),
            Err(_) => Ok(Err(())),
        }
    })
    .map_err(|p| Failure::internal(format!("direct jet execution panicked: {p}")))?
    .map_err(|e| Failure::internal(format!("direct jet program for {}: {e}", sig.name)))?;
    match r {
        Err(()) => Ok(Err(())),
        Ok(out_bits) => match layout::unbits(&sig.ret, &out_bits) {
            Some(v) => Ok(Ok(v)),
            None => Err(Failure::new(
                format!("c13:documented-result-does-not-fit-the-jet:{}", sig.name),
                format!("the output of jet {} ({} bits) does not decode at the documented result type {}", sig.name, out_bits.len(), sig.ret),
            )),
        },
    }
}

fn e_direct(i: u64, ctx: &mut Ctx) -> Result<(), Failure> {
    let js = callable();
    let per = ctx.tier.pick(30, 600);
    let sig = &js[(i / per) as usize];
    let mut tape = Tape::new((0..600).map(|x| splitmix(i * 7919 + x + 17) as u32).collect());
    let args = gen_args(&mut tape, sig, i % 2 == 0);
    let res = direct(sig, &args)?;
    // where a native reference exists it must agree with the jet itself (validates the reference)
    if let Some(r) = jets::eval(&sig.name, &args) {
        if r != res {
            return Err(Failure::internal(format!("native reference of {} disagrees with direct jet execution on {:?}: {:?} vs {:?}", sig.name, args, r, res)));
        }
        ctx.label("reference-validated");
    }
    let (g, text) = observed_call(sig, &args, Some(res.clone()), splitmix(i));
    let v = run_observed(&g, &text, Some((sig.name.clone(), res.clone())), ctx, "c13:direct")?;
    ctx.label(if res.is_err() { "jet:fails" } else { "jet:returns" });
    ctx.label(if v == Verdict::Success { "run:success" } else { "run:fails" });
    if sig.params.len() >= 2 || sig.params.iter().any(|p| matches!(p.resolved_head(), Ty::Tuple(_))) || matches!(sig.ret.resolved_head(), Ty::Tuple(_)) {
        ctx.nontrivial(digest(&[text.as_bytes()]));
    }
    ctx.sample(text.len() as u64, || json!({"jet": sig.name, "arguments": wit_json(&g, &g.wit_map()), "direct_result": format!("{:?}", res.as_ref().map(|v| render::val_text(v, &sig.ret)))}));
    Ok(())
}

pub fn streams() -> Vec<Stream> {
    vec![
        Stream { name: "signatures", kind: Kind::Enum { count: |_| all_jets().len() as u64, complete: |_| true, f: e_signatures }, isolate: false },
        Stream { name: "closed-form", kind: Kind::Enum { count: |t: Tier| with_reference().len() as u64 * t.pick(150, 3000), complete: |_| false, f: e_closed_form }, isolate: false },
        Stream { name: "direct", kind: Kind::Enum { count: |t: Tier| callable().len() as u64 * t.pick(30, 600), complete: |_| false, f: e_direct }, isolate: false },
    ]
}

pub fn def() -> PropertyDef {
    PropertyDef {
        id: "C13",
        rule: "signatures (complete over the jets): for every jet of golden/jets.tsv (which must name exactly Elements::ALL) the one-call program with witnesses bound at the documented parameter types and the result at the documented type is accepted, compiles, commits 1 -> 1 and satisfies; with one argument dropped / added, two differently typed arguments swapped, the result or one argument at a layout-equal other type it is rejected; jet::verify and jet::check_sig_verify are rejected. closed-form: every jet with a native reference (arithmetic, comparison, bit logic, shifts, pads; written from the Simplicity specification) x 150 (thorough 3000) asymmetric argument tuples (boundary and random): the program asserts every integer of the result against the reference (one constant wrong in 1/4 of the cases) and its verdict must equal the prediction. direct: every callable jet x 30 (600) tuples: the arguments are laid out in written order by the reference layout, scribed into a hand-built Simplicity program `scribe ; jet` (no Simfony involved), its output decoded at the documented result type, and the Simfony call must observe exactly that value (or fail iff the jet fails). evaluations = acceptance decisions + executions. Non-trivial = call with >= 2 arguments or a tuple-typed argument / result; distinct by digest.",
        assumptions: &[
            "golden/jets.tsv is a reviewed snapshot of the published signatures at the pinned commit: for the ~170 jets without closed form it can only detect change",
            "the jets themselves (rust-simplicity's C implementation) are trusted; the native references are validated against them in the direct stream",
        ],
        streams,
        health: &[],
    }
}
