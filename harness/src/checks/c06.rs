//! C06 - every text entry point is total: Ok or Err, never a panic / abort / stack overflow.

use std::collections::HashMap;

use serde_json::json;
use simfony::parse::ParseFromStr;
use simfony::{Arguments, ResolvedType, TemplateProgram, Value, WitnessValues};

use crate::conv;
use crate::run::{catch, panic_site, Ctx, Failure, Kind, PropertyDef, Stream, Tier};
use crate::seeds;
use crate::tape::{digest, Tape};
use crate::textmut;
use crate::valgen;

pub const MAX_DEPTH: usize = 12;
pub const MAX_LEN: usize = 64 * 1024;

fn fail(entry: &str, input: &str, p: &str) -> Failure {
    Failure::new(
        format!("panic:{}", panic_site(p)),
        format!("{entry} panicked: {p}\n--- input ---\n{}", truncate(input, 1500)),
    )
    .with(json!({"entry": entry, "input": input, "panic": p}))
}

pub fn truncate(s: &str, n: usize) -> String {
    if s.len() <= n {
        s.to_string()
    } else {
        let mut k = n;
        while !s.is_char_boundary(k) {
            k -= 1;
        }
        format!("{}…[{} bytes]", &s[..k], s.len())
    }
}

/// Guards of DESIGN §3. Returns the reason when the input is outside the quantifier.
pub fn guard(s: &str) -> Option<&'static str> {
    if s.len() > MAX_LEN {
        return Some("guard:longer-than-64KiB");
    }
    if textmut::nesting_depth(s) > MAX_DEPTH {
        return Some("guard:nesting-depth>12");
    }
    if textmut::has_huge_size(s) {
        return Some("guard:declared-size-in-(4096,2^64)");
    }
    None
}

fn parse_types() -> &'static Vec<ResolvedType> {
    static T: std::sync::OnceLock<Vec<ResolvedType>> = std::sync::OnceLock::new();
    T.get_or_init(|| {
        seeds::VALUE_PARSE_TYPES
            .iter()
            .map(|s| ResolvedType::parse_from_str(s).expect("VALUE_PARSE_TYPES parse"))
            .collect()
    })
}

/// Build a map of values shaped after a name -> type map (values from the tape).
fn shaped_values<'a>(t: &mut Tape, types: impl Iterator<Item = (&'a simfony::str::WitnessName, &'a ResolvedType)>) -> HashMap<simfony::str::WitnessName, Value> {
    let mut m = HashMap::new();
    let mut items: Vec<_> = types.collect();
    items.sort_by(|a, b| a.0.as_inner().cmp(b.0.as_inner()));
    for (n, ty) in items {
        let mty = conv::from_resolved(ty);
        if mty.size() > 4000 {
            continue;
        }
        let v = valgen::gen_val(t, &mty);
        m.insert(n.clone(), conv::to_value(&v, &mty));
    }
    m
}

/// Feed one string to the program entry points. Returns whether the grammar accepted it.
pub fn feed_program(t: &mut Tape, s: &str, ctx: &mut Ctx) -> Result<bool, Failure> {
    ctx.evals(1);
    let parsed = catch(|| simfony::parse::Program::parse_from_str(s)).map_err(|p| fail("parse::Program::parse_from_str", s, &p))?;
    let past_grammar = parsed.is_ok();
    if let Err(e) = &parsed {
        let e = e.clone();
        catch(move || e.to_string()).map_err(|p| fail("RichError::to_string (parse)", s, &p))?;
    }
    let tmpl = catch(|| TemplateProgram::new(s)).map_err(|p| fail("TemplateProgram::new", s, &p))?;
    let Ok(tmpl) = tmpl else { return Ok(past_grammar) };
    ctx.label("program:accepted");
    // arguments shaped after parameters()
    let args = catch(|| shaped_values(t, tmpl.parameters().iter())).map_err(|p| fail("parameters()", s, &p))?;
    // witness types through the public analysis API
    let wit_types = catch(|| {
        let p = simfony::parse::Program::parse_from_str(s).ok()?;
        let a = simfony::ast::Program::analyze(&p).ok()?;
        Some(a.witness_types().shallow_clone())
    })
    .map_err(|p| fail("ast::Program::analyze", s, &p))?;
    for debug in [false, true] {
        ctx.evals(1);
        let a = Arguments::from(args.clone());
        let c = catch(|| tmpl.instantiate(a, debug)).map_err(|p| fail("TemplateProgram::instantiate", s, &p))?;
        // missing arguments
        if !args.is_empty() {
            let _ = catch(|| tmpl.instantiate(Arguments::default(), debug).map(|_| ())).map_err(|p| fail("TemplateProgram::instantiate(no args)", s, &p))?;
        }
        let Ok(c) = c else { continue };
        ctx.label("program:instantiated");
        if let Some(wt) = &wit_types {
            let good = shaped_values(t, wt.iter());
            // one ill-typed map: every value replaced by a bool
            let bad: HashMap<_, _> = good.keys().map(|k| (k.clone(), Value::from(true))).collect();
            for (what, m) in [("well-typed", good), ("ill-typed", bad)] {
                ctx.evals(1);
                let w = WitnessValues::from(m);
                let r = catch(|| c.satisfy(w).map(|_| ())).map_err(|p| fail(&format!("CompiledProgram::satisfy ({what} map)"), s, &p))?;
                if r.is_ok() {
                    ctx.label("program:satisfied");
                }
            }
        }
    }
    Ok(past_grammar)
}

pub fn feed_modules(s: &str, ctx: &mut Ctx) -> Result<bool, Failure> {
    ctx.evals(2);
    let mut past = false;
    let r = catch(|| WitnessValues::parse_from_str(s).map(|_| ()).map_err(|e| e.to_string())).map_err(|p| fail("WitnessValues::parse_from_str", s, &p))?;
    if r.is_ok() {
        ctx.label("module:witness-accepted");
        past = true;
    } else if let Err(e) = &r {
        past |= !e.contains("Grammar error");
    }
    let r = catch(|| Arguments::parse_from_str(s).map(|_| ()).map_err(|e| e.to_string())).map_err(|p| fail("Arguments::parse_from_str", s, &p))?;
    if r.is_ok() {
        ctx.label("module:param-accepted");
        past = true;
    }
    Ok(past)
}

pub fn feed_json(s: &str, ctx: &mut Ctx) -> Result<bool, Failure> {
    ctx.evals(2);
    let mut past = false;
    let r = catch(|| serde_json::from_str::<WitnessValues>(s).map(|_| ()).map_err(|e| e.to_string())).map_err(|p| fail("serde_json::from_str::<WitnessValues>", s, &p))?;
    if r.is_ok() {
        ctx.label("json:witness-accepted");
        past = true;
    } else if let Err(e) = &r {
        // got past JSON syntax into value/type parsing
        past |= e.contains(" | ") || e.contains("Expected") || e.contains("Grammar");
    }
    let r = catch(|| serde_json::from_str::<Arguments>(s).map(|_| ()).map_err(|e| e.to_string())).map_err(|p| fail("serde_json::from_str::<Arguments>", s, &p))?;
    past |= r.is_ok();
    Ok(past)
}

pub fn feed_type(s: &str, ctx: &mut Ctx) -> Result<bool, Failure> {
    ctx.evals(1);
    let r = catch(|| ResolvedType::parse_from_str(s).map(|t| t.to_string()).map_err(|e| e.to_string())).map_err(|p| fail("ResolvedType::parse_from_str", s, &p))?;
    if r.is_ok() {
        ctx.label("type:accepted");
    }
    Ok(r.is_ok())
}

pub fn feed_value(s: &str, ctx: &mut Ctx, all_types: bool) -> Result<bool, Failure> {
    let tys = parse_types();
    let mut past = false;
    let n = if all_types { tys.len() } else { 10 };
    for ty in tys.iter().take(n) {
        ctx.evals(1);
        // an accepted value is also printed and lowered to its Simplicity form (what compilation does with it)
        let r = catch(|| {
            Value::parse_from_str(s, ty)
                .map(|v| {
                    let _ = simfony::value::StructuralValue::from(&v);
                    v.to_string()
                })
                .map_err(|e| e.to_string())
        })
        .map_err(|p| fail(&format!("Value::parse_from_str at {ty}"), s, &p))?;
        match r {
            Ok(_) => {
                ctx.label("value:accepted");
                past = true;
            }
            Err(e) => past |= !e.contains("Grammar error"),
        }
    }
    Ok(past)
}

fn feed_all(t: &mut Tape, s: &str, ctx: &mut Ctx, pool: &str, is_mutant: bool) -> Result<(), Failure> {
    if let Some(g) = guard(s) {
        ctx.exclude(g);
        return Ok(());
    }
    let mut past = false;
    past |= feed_program(t, s, ctx)?;
    past |= feed_modules(s, ctx)?;
    past |= feed_json(s, ctx)?;
    past |= feed_type(s, ctx)?;
    past |= feed_value(s, ctx, s.len() <= 400)?;
    ctx.label(&format!("pool:{pool}"));
    if past {
        ctx.label("past-grammar");
        if is_mutant {
            ctx.nontrivial(digest(&[s.as_bytes()]));
        }
    }
    ctx.sample(s.len() as u64, || json!({"pool": pool, "input": truncate(s, 600), "past_grammar": past}));
    Ok(())
}

fn program_pool() -> Vec<&'static str> {
    let mut v: Vec<&'static str> = seeds::examples().iter().map(|e| e.program.as_str()).collect();
    v.extend(crate::checks::genpool::programs().iter().map(|s| s.as_str()));
    v
}

fn s_program(t: &mut Tape, ctx: &mut Ctx) -> Result<(), Failure> {
    let pool = program_pool();
    let a = pool[t.index(pool.len())];
    let b = pool[t.index(pool.len())];
    let (m, ops) = textmut::mutate(t, a, b);
    for o in ops {
        ctx.label(&format!("op:{o}"));
    }
    let is_mutant = !pool.contains(&m.as_str());
    feed_all(t, &m, ctx, "program", is_mutant)
}

fn s_module(t: &mut Tape, ctx: &mut Ctx) -> Result<(), Failure> {
    let mut pool: Vec<&str> = seeds::MODULE_SEEDS.to_vec();
    pool.extend(crate::checks::genpool::modules().iter().map(|s| s.as_str()));
    let a = pool[t.index(pool.len())];
    let b = pool[t.index(pool.len())];
    let (m, _) = textmut::mutate(t, a, b);
    let is_mutant = !pool.contains(&m.as_str());
    feed_all(t, &m, ctx, "module", is_mutant)
}

fn s_json(t: &mut Tape, ctx: &mut Ctx) -> Result<(), Failure> {
    let mut pool: Vec<&str> = seeds::JSON_SEEDS.to_vec();
    for e in seeds::examples() {
        for (_, w) in &e.wit_json {
            pool.push(w.as_str());
        }
        if let Some(a) = &e.args_json {
            pool.push(a.as_str());
        }
    }
    pool.extend(crate::checks::genpool::jsons().iter().map(|s| s.as_str()));
    let a = pool[t.index(pool.len())];
    let b = pool[t.index(pool.len())];
    let (m, _) = textmut::mutate(t, a, b);
    let is_mutant = !pool.contains(&m.as_str());
    feed_all(t, &m, ctx, "json", is_mutant)
}

fn s_value(t: &mut Tape, ctx: &mut Ctx) -> Result<(), Failure> {
    let mut pool: Vec<&str> = seeds::VALUE_SEEDS.to_vec();
    pool.extend(seeds::TYPE_SEEDS);
    pool.extend(textmut::LITERAL_EDGES);
    let a = pool[t.index(pool.len())];
    let b = pool[t.index(pool.len())];
    let m = if t.chance(1, 4) { a.to_string() } else { textmut::mutate(t, a, b).0 };
    let is_mutant = !pool.contains(&m.as_str());
    feed_all(t, &m, ctx, "value", is_mutant)
}

fn s_raw(t: &mut Tape, ctx: &mut Ctx) -> Result<(), Failure> {
    let s = textmut::raw_string(t);
    feed_all(t, &s, ctx, "raw", true)
}

fn stream(name: &'static str, f: crate::run::TapeFn, q: u64, th: u64) -> Stream {
    // function pointers cannot capture; counts are encoded per stream below
    let cases: fn(Tier) -> u64 = match name {
        "program" => |t| t.pick(70_000, 3_000_000),
        "module" => |t| t.pick(30_000, 1_000_000),
        "json" => |t| t.pick(25_000, 800_000),
        "value" => |t| t.pick(40_000, 1_500_000),
        _ => |t| t.pick(12_000, 400_000),
    };
    let _ = (q, th);
    Stream {
        name,
        kind: Kind::Tape { cases, max_len: 96, f },
        isolate: true,
    }
}

/// Raw text carried by the tape bytes (libFuzzer campaigns only; no proptest cases).
fn s_fuzztext(t: &mut Tape, ctx: &mut Ctx) -> Result<(), Failure> {
    let s = crate::fuzzglue::text_of_tape(t);
    feed_all(t, &s, ctx, "fuzztext", true)
}

pub fn streams() -> Vec<Stream> {
    vec![
        Stream { name: "fuzztext", kind: Kind::Tape { cases: |_| 0, max_len: 4096, f: s_fuzztext }, isolate: true },
        stream("program", s_program, 0, 0),
        stream("module", s_module, 0, 0),
        stream("json", s_json, 0, 0),
        stream("value", s_value, 0, 0),
        stream("raw", s_raw, 0, 0),
    ]
}

pub fn def() -> PropertyDef {
    PropertyDef {
        id: "C06",
        rule: "strings = tape-driven token mutants (delete/duplicate/swap/replace/insert/splice/transplant/literal-edge/whitespace/char/ident/truncate, 1-4 per string) of five seed pools (programs: shipped examples + generated well-typed programs; witness/param modules; JSON witness/argument files; value and type expressions; raw random strings), each fed to every text entry point (TemplateProgram::new -> instantiate(debug off/on, shaped and empty arguments) -> satisfy(shaped and ill-typed witness maps); WitnessValues/Arguments::parse_from_str; serde_json::from_str::<WitnessValues|Arguments>; ResolvedType::parse_from_str; Value::parse_from_str at 45 types) inside child processes with an 8 MiB stack; oracle = no panic, no abort, no stack overflow. evaluations = entry-point calls. Non-trivial = the string is not a member of its seed pool and at least one entry point got past the grammar (so more than pest is exercised); distinct by FNV digest of the string. Excluded by the guards of DESIGN §3 (counted in coverage.excluded): nesting depth > 12, length > 64 KiB, declared array/list sizes in (4096, 2^64).",
        assumptions: &[
            "a panic is observed through catch_unwind in the harness; aborts and stack overflows through the exit signal of the child process",
            "absence of panics is never established by search; inputs outside the three resource guards are not explored",
        ],
        streams,
        health: &[("program", "past-grammar", 100), ("value", "past-grammar", 200)],
    }
}
