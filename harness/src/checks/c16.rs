//! C16 - printing a parsed program and re-parsing it changes nothing.

use serde_json::json;
use simfony::parse::ParseFromStr;

use crate::checks::c01::check_maps;
use crate::checks::c06::guard;
use crate::checks::common::*;
use crate::checks::nearmiss_streams::edited;
use crate::gen::{self, GenCfg};
use crate::pipe;
use crate::render::{self, Style};
use crate::run::{catch, panic_site, Ctx, Failure, Kind, PropertyDef, Stream, Tier};
use crate::seeds;
use crate::tape::{digest, Tape};
use crate::textmut;

pub enum Reparse {
    Unparseable,
    /// printed text, and whether original / printed were accepted by the front end
    Ok { printed: String, accepted: bool },
}

/// parse -> print -> parse must give an equal tree, and the same acceptance.
pub fn reparse(text: &str, origin: &str) -> Result<Reparse, Failure> {
    let detail = |printed: &str| json!({"original": text, "printed": printed, "origin": origin});
    let p = match catch(|| simfony::parse::Program::parse_from_str(text)) {
        Ok(Ok(p)) => p,
        Ok(Err(_)) => return Ok(Reparse::Unparseable),
        Err(_) => return Ok(Reparse::Unparseable), // panics are C06's business
    };
    let printed = catch(|| p.to_string()).map_err(|m| Failure::new(format!("panic:{}", panic_site(&m)), format!("parse::Program::to_string panicked: {m}\n{}", truncate(text, 2000))))?;
    let q = match catch(|| simfony::parse::Program::parse_from_str(&printed)) {
        Ok(Ok(q)) => q,
        Ok(Err(e)) => {
            return Err(Failure::new(
                "reparse:printed-text-rejected",
                format!("the printed program does not parse: {}\n--- original ({origin}) ---\n{}\n--- printed ---\n{}", pipe::last_line(&e.to_string()), truncate(text, 2000), truncate(&printed, 2000)),
            )
            .with(detail(&printed)))
        }
        Err(m) => return Err(Failure::new(format!("panic:{}", panic_site(&m)), format!("parsing the printed program panicked: {m}\n{}", truncate(&printed, 2000))).with(detail(&printed))),
    };
    if q != p {
        return Err(Failure::new(
            "reparse:tree-differs",
            format!("parsing the printed program gives a different parse tree\n--- original ({origin}) ---\n{}\n--- printed ---\n{}\n--- printed again ---\n{}", truncate(text, 2000), truncate(&printed, 2000), truncate(&q.to_string(), 2000)),
        )
        .with(detail(&printed)));
    }
    let a1 = pipe::new_template(text).map(|r| r.is_ok());
    let a2 = pipe::new_template(&printed).map(|r| r.is_ok());
    match (a1, a2) {
        (Ok(x), Ok(y)) if x == y => Ok(Reparse::Ok { printed, accepted: x }),
        (Ok(x), Ok(y)) => Err(Failure::new(
            "reparse:acceptance-differs",
            format!("the original is {} but the printed program is {}\n--- original ({origin}) ---\n{}\n--- printed ---\n{}", if x { "accepted" } else { "rejected" }, if y { "accepted" } else { "rejected" }, truncate(text, 2000), truncate(&printed, 2000)),
        )
        .with(detail(&printed))),
        _ => Ok(Reparse::Unparseable),
    }
}

fn s_generated(t: &mut Tape, ctx: &mut Ctx) -> Result<(), Failure> {
    let g = gen::generate(t, GenCfg::small());
    let style = Style::from_seed(t.next() as u64);
    let text = render::render(&g.prog, &style);
    require_well_typed(&g, &text)?;
    ctx.evals(1);
    match reparse(&text, "generated")? {
        Reparse::Unparseable => Err(Failure::new("c16:generated-program-unparseable", format!("a generated well-typed program does not parse\n{}", truncate(&text, 2500))).with(json!({"program": text}))),
        Reparse::Ok { printed, accepted } => {
            if !accepted {
                return Err(Failure::new("c16:generated-program-rejected", format!("a generated well-typed program is rejected\n{}", truncate(&text, 2500))).with(json!({"program": text})));
            }
            // behaviour of the printed text == reference interpreter (== behaviour of the original, C01)
            let (maps, _) = assignments(t, &g, 64, 3);
            check_maps(&g, &printed, &maps, ctx, "c16", &[false])?;
            if style.noise > 0 || style.one_line || style.crlf || style.tabs {
                ctx.nontrivial(digest(&[text.as_bytes()]));
            }
            ctx.label(&format!("style:noise{}", style.noise));
            ctx.sample(text.len() as u64, || json!({"style": style.describe(), "original": truncate(&text, 700), "printed": truncate(&printed, 700)}));
            Ok(())
        }
    }
}

fn s_edited(t: &mut Tape, ctx: &mut Ctx) -> Result<(), Failure> {
    let Some(e) = edited(t, ctx, true)? else { return Ok(()) };
    ctx.evals(1);
    match reparse(&e.text, "near-miss-edit")? {
        Reparse::Unparseable => {
            ctx.label("unparseable");
        }
        Reparse::Ok { accepted, .. } => {
            ctx.label(if accepted { "parses:accepted" } else { "parses:rejected" });
            ctx.nontrivial(digest(&[e.text.as_bytes()]));
        }
    }
    Ok(())
}

fn s_mutants(t: &mut Tape, ctx: &mut Ctx) -> Result<(), Failure> {
    let mut pool: Vec<&str> = seeds::examples().iter().map(|e| e.program.as_str()).collect();
    pool.extend(crate::checks::genpool::programs().iter().map(|s| s.as_str()));
    let a = pool[t.index(pool.len())];
    let b = pool[t.index(pool.len())];
    let m = if t.chance(1, 10) { a.to_string() } else { textmut::mutate(t, a, b).0 };
    if let Some(gd) = guard(&m) {
        ctx.exclude(gd);
        return Ok(());
    }
    ctx.evals(1);
    match reparse(&m, "token-mutant")? {
        Reparse::Unparseable => {
            ctx.label("unparseable");
        }
        Reparse::Ok { accepted, printed } => {
            ctx.label(if accepted { "parses:accepted" } else { "parses:rejected" });
            ctx.nontrivial(digest(&[m.as_bytes()]));
            ctx.sample(m.len() as u64, || json!({"origin": "token-mutant", "original": truncate(&m, 500), "printed": truncate(&printed, 500)}));
        }
    }
    Ok(())
}

fn s_fuzztext(t: &mut Tape, ctx: &mut Ctx) -> Result<(), Failure> {
    let s = crate::fuzzglue::text_of_tape(t);
    if guard(&s).is_some() {
        return Ok(());
    }
    reparse(&s, "fuzztext").map(|_| ())
}

pub fn streams() -> Vec<Stream> {
    vec![
        Stream { name: "fuzztext", kind: Kind::Tape { cases: |_| 0, max_len: 4096, f: s_fuzztext }, isolate: false },
        Stream { name: "generated", kind: Kind::Tape { cases: |t: Tier| t.pick(15_000, 400_000), max_len: 320, f: s_generated }, isolate: false },
        Stream { name: "edited", kind: Kind::Tape { cases: |t: Tier| t.pick(40_000, 1_000_000), max_len: 340, f: s_edited }, isolate: false },
        Stream { name: "mutants", kind: Kind::Tape { cases: |t: Tier| t.pick(60_000, 1_500_000), max_len: 120, f: s_mutants }, isolate: false },
    ]
}

pub fn def() -> PropertyDef {
    PropertyDef {
        id: "C16",
        rule: "parseable texts: generated programs rendered with varied layout (comments incl. non-ASCII, odd whitespace, CRLF, tabs, one-line, optional trailing commas, arm order, optional `-> ()`, parentheses, block / single arms, module items), accepted and rejected near-miss edits of them, token mutants of shipped examples and generated programs that still parse. Oracle: p = parse(t); q = parse(p.to_string()) must be Ok and q == p; TemplateProgram::new accepts the printed text iff it accepts the original; for generated programs the printed text behaves like the reference interpreter on up to 64 / sampled witness assignments. evaluations = texts round-tripped (+ executions). Non-trivial = parseable text whose layout is not the printer's own (styled generated text, edited or mutated text); distinct by digest.",
        assumptions: &["texts that do not parse are outside the quantifier and only counted"],
        streams,
        health: &[("mutants", "parses:rejected", 20)],
    }
}
