//! C11 - integer literals denote their mathematical value.

use std::collections::HashMap;

use serde_json::json;
use simfony::{ResolvedType, Value};

use crate::checks::common::*;
use crate::conv;
use crate::model::{Ty, Val, U256, UINT_WIDTHS};
use crate::pipe;
use crate::run::{catch, panic_site, Ctx, Failure, Kind, PropertyDef, Stream, Tier};
use crate::tape::{digest, Tape};
use crate::tycheck;
use crate::valgen;

fn pfail(what: &str, p: &str, input: &str) -> Failure {
    Failure::new(format!("panic:{}", panic_site(p)), format!("{what} panicked: {p}\n{}", truncate(input, 800)))
}

/// Mathematical value and accept/reject verdict of a literal at uN, by the rules of the statement.
fn classify(lit: &str, bits: u16) -> Option<U256> {
    if let Some(d) = lit.strip_prefix("0b") {
        let digits: String = d.chars().filter(|c| *c != '_').collect();
        if digits.len() != bits as usize || !d.chars().all(|c| "01_".contains(c)) || digits.is_empty() {
            return None;
        }
        let mut v = U256::ZERO;
        for (i, c) in digits.chars().rev().enumerate() {
            if c == '1' {
                v = v.flip_bit(i as u16);
            }
        }
        return Some(v);
    }
    if let Some(d) = lit.strip_prefix("0x") {
        let digits: String = d.chars().filter(|c| *c != '_').collect();
        if bits < 8 || digits.len() != (bits / 4) as usize || !d.chars().all(|c| c == '_' || c.is_ascii_hexdigit()) {
            return None;
        }
        let mut v = U256::ZERO;
        for (i, c) in digits.chars().rev().enumerate() {
            let x = c.to_digit(16).unwrap() as u16;
            for b in 0..4 {
                if (x >> b) & 1 == 1 {
                    v = v.flip_bit(i as u16 * 4 + b);
                }
            }
        }
        return Some(v);
    }
    let digits: String = lit.chars().filter(|c| *c != '_').collect();
    if digits.is_empty() || !lit.chars().all(|c| c == '_' || c.is_ascii_digit()) {
        return None;
    }
    let v = tycheck::decimal_value(&digits)?;
    if v <= U256::max_of(bits) {
        Some(v)
    } else {
        None
    }
}

fn decorate(t: &mut Tape, digits: &str) -> (String, bool) {
    // underscores anywhere (leading, trailing, doubled)
    let mut out = String::new();
    let mut decorated = false;
    if t.chance(1, 6) {
        out.push_str(["_", "__"][t.index(2)]);
        decorated = true;
    }
    for c in digits.chars() {
        out.push(c);
        if t.chance(1, 8) {
            out.push_str(["_", "__"][t.index(2)]);
            decorated = true;
        }
    }
    (out, decorated)
}

fn interesting_value(t: &mut Tape, bits: u16) -> U256 {
    let max = U256::max_of(bits);
    match t.weighted(&[3, 2, 2, 4]) {
        0 => valgen::gen_uint(t, bits),
        1 => {
            // powers of ten and neighbours
            let k = t.index(78);
            let s = format!("1{}", "0".repeat(k));
            let v = tycheck::decimal_value(&s).unwrap_or(max);
            let v = if v > max { max } else { v };
            if t.bool() && v > U256::ZERO {
                // v - 1
                let (lo, b) = v.lo.overflowing_sub(1);
                U256 { hi: v.hi - b as u128, lo }
            } else {
                v
            }
        }
        2 => {
            // alternating bit patterns
            let pat: u128 = [0xAAAAAAAAAAAAAAAAAAAAAAAAAAAAAAAA, 0x55555555555555555555555555555555, 0x00FF00FF00FF00FF00FF00FF00FF00FF, 0x0123456789ABCDEFFEDCBA9876543210][t.index(4)];
            U256 { hi: pat & max.hi, lo: pat & max.lo }
        }
        _ => valgen::gen_uint(t, bits),
    }
}

/// Source text that compares a literal with a witness at width `bits`.
fn eq_program(bits: u16, lit: &str) -> String {
    match bits {
        1 | 8 | 16 | 32 | 64 | 256 => format!("fn main() {{\n    let x: u{bits} = {lit};\n    assert!(jet::eq_{bits}(x, witness::W));\n}}\n"),
        2 => format!(
            "fn main() {{\n    let x: u2 = {lit};\n    let (a, b): (u1, u1) = <u2>::into(x);\n    let (c, d): (u1, u1) = <u2>::into(witness::W);\n    assert!(jet::eq_1(a, c));\n    assert!(jet::eq_1(b, d));\n}}\n"
        ),
        4 => format!(
            "fn main() {{\n    let x: u4 = {lit};\n    let ((a, b), (c, d)): ((u1, u1), (u1, u1)) = <u4>::into(x);\n    let ((e, f), (g, h)): ((u1, u1), (u1, u1)) = <u4>::into(witness::W);\n    assert!(jet::eq_1(a, e));\n    assert!(jet::eq_1(b, f));\n    assert!(jet::eq_1(c, g));\n    assert!(jet::eq_1(d, h));\n}}\n"
        ),
        128 => format!(
            "fn main() {{\n    let x: u128 = {lit};\n    let (a, b): (u64, u64) = <u128>::into(x);\n    let (c, d): (u64, u64) = <u128>::into(witness::W);\n    assert!(jet::eq_64(a, c));\n    assert!(jet::eq_64(b, d));\n}}\n"
        ),
        _ => unreachable!(),
    }
}

fn s_literals(t: &mut Tape, ctx: &mut Ctx) -> Result<(), Failure> {
    let bits = UINT_WIDTHS[t.index(UINT_WIDTHS.len())];
    let max = U256::max_of(bits);
    let v = match t.weighted(&[2, 2, 2, 1, 6]) {
        0 => U256::ZERO,
        1 => U256::from_u128(1),
        2 => max,
        3 => U256::from_u128(2),
        _ => interesting_value(t, bits),
    };
    let v = U256 { hi: v.hi & max.hi, lo: v.lo & max.lo };
    // notation and decoration
    let notation = t.weighted(&[4, 3, 3]);
    let mut label = vec![];
    let lit: String = match notation {
        0 => {
            // decimal, possibly overflowing
            let mut digits = match t.weighted(&[8, 1, 1, 1]) {
                0 => v.to_decimal(),
                1 => {
                    // 2^N and 2^N + 1
                    label.push("overflow");
                    let (lo, c) = max.lo.overflowing_add(1 + t.index(2) as u128);
                    if bits == 256 {
                        "115792089237316195423570985008687907853269984665640564039457584007913129639936".to_string()
                    } else {
                        U256 { hi: max.hi + c as u128, lo }.to_decimal()
                    }
                }
                2 => {
                    label.push("long-run");
                    let k = 90 + t.index(20);
                    (0..k).map(|_| char::from(b'0' + t.index(10) as u8)).collect()
                }
                _ => {
                    label.push("one-digit-more");
                    format!("{}{}", v.to_decimal(), t.index(10))
                }
            };
            if t.chance(1, 4) {
                label.push("leading-zeros");
                digits = format!("{}{}", "0".repeat(1 + t.index(90)), digits);
            }
            let (d, dec) = decorate(t, &digits);
            if dec {
                label.push("underscores");
            }
            d
        }
        1 => {
            let mut digits = v.to_bin(bits);
            match t.weighted(&[6, 1, 1, 1]) {
                1 => {
                    label.push("digit-more");
                    digits.insert(0, if t.bool() { '0' } else { '1' });
                }
                2 => {
                    label.push("digit-fewer");
                    digits.remove(0);
                }
                3 => {
                    label.push("other-width");
                    let w = UINT_WIDTHS[t.index(UINT_WIDTHS.len())];
                    digits = "1".repeat(w as usize);
                }
                _ => {}
            }
            let (d, dec) = decorate(t, &digits);
            if dec {
                label.push("underscores");
            }
            if digits.is_empty() {
                label.push("no-digit");
            }
            format!("0b{d}")
        }
        _ => {
            let mut digits = if bits >= 4 { v.to_hex(bits) } else { "0".to_string() };
            match t.weighted(&[6, 1, 1, 1]) {
                1 => {
                    label.push("digit-more");
                    digits.insert(0, '0');
                }
                2 => {
                    label.push("digit-fewer");
                    digits.remove(0);
                }
                3 => {
                    label.push("no-digit");
                    digits.clear();
                }
                _ => {}
            }
            if t.chance(1, 3) {
                label.push("upper-case");
                digits = digits.to_uppercase();
            }
            let (d, dec) = decorate(t, &digits);
            if dec {
                label.push("underscores");
            }
            format!("0x{d}")
        }
    };
    let lit = if t.chance(1, 40) {
        label.push("no-digit");
        ["_", "__", "0b_", "0x_", "0x__", "0b"][t.index(6)].to_string()
    } else {
        lit
    };
    // a digit that does not belong to the radix, somewhere after the first digit (judged inside
    // programs only: the value entry point does not read to the end of its input)
    let mut foreign_digit = false;
    let lit = if t.chance(1, 25) {
        let mut cs: Vec<char> = lit.chars().collect();
        let body_start = if lit.starts_with("0b") || lit.starts_with("0x") { 2 } else { 0 };
        let digit_positions: Vec<usize> = (body_start..cs.len()).filter(|i| cs[*i] != '_').collect();
        if digit_positions.len() >= 2 {
            let at = digit_positions[1 + t.index(digit_positions.len() - 1)];
            cs[at] = if lit.starts_with("0b") {
                char::from(b'2' + t.index(8) as u8)
            } else if lit.starts_with("0x") {
                char::from(b'g' + t.index(20) as u8)
            } else {
                char::from(b'a' + t.index(6) as u8)
            };
            foreign_digit = true;
            label.push("foreign-digit");
            cs.into_iter().collect()
        } else {
            lit
        }
    } else {
        lit
    };
    for l in &label {
        ctx.label(&format!("lit:{l}"));
    }
    let expect = classify(&lit, bits);
    let ty = Ty::UInt(bits);
    let rty: ResolvedType = conv::to_resolved(&ty);
    let detail = json!({"literal": lit, "type": format!("u{bits}"), "expected": expect.map(|v| v.to_decimal())});
    // level 1: Value::parse_from_str against the Rust constructors.
    // `0x` / `0b` followed by no digit is not one token: the value entry point (which does not
    // require end of input) reads the leading `0` and ignores the rest, so such texts are only
    // judged inside programs (level 2).
    let prefix_only = (lit.starts_with("0x") || lit.starts_with("0b")) && lit[2..].chars().all(|c| c == '_');
    ctx.evals(1);
    let parsed = catch(|| Value::parse_from_str(&lit, &rty).map_err(|e| e.to_string())).map_err(|p| pfail("Value::parse_from_str", &p, &lit))?;
    match (&parsed, &expect) {
        (_, None) if prefix_only || foreign_digit => {
            ctx.label("lit:prefix-only-or-foreign-digit(level-2-only)");
        }
        (Ok(got), Some(v)) => {
            let want = conv::to_value(&Val::UInt(bits, *v), &ty);
            if *got != want {
                return Err(Failure::new("c11:literal-denotes-wrong-value", format!("`{}` at u{bits} parses to {got}, its mathematical value is {}", truncate(&lit, 300), v.to_decimal())).with(detail));
            }
            // printer: the printed integer parses back
            let printed = want.to_string();
            match catch(|| Value::parse_from_str(&printed, &rty).map_err(|e| e.to_string())).map_err(|p| pfail("Value::parse_from_str", &p, &printed))? {
                Ok(b) if b == want => {}
                other => return Err(Failure::new("c11:printed-integer-does-not-parse-back", format!("u{bits} value {} prints as `{printed}` which parses to {:?}", v.to_decimal(), other.map(|x| x.to_string()))).with(detail)),
            }
        }
        (Err(_), None) => {}
        (Ok(got), None) => {
            let sig = if lit.chars().all(|c| !c.is_ascii_hexdigit() || "xb".contains(c)) || !lit.chars().any(|c| c.is_ascii_digit() || ('a'..='f').contains(&c.to_ascii_lowercase()) && lit.starts_with("0x")) { "literal:no-digit-accepted" } else { "c11:malformed-literal-accepted" };
            return Err(Failure::new(sig, format!("`{}` at u{bits} must be rejected (value out of range, wrong digit count or no digit) but parses to {got}", truncate(&lit, 300))).with(detail));
        }
        (Err(e), Some(v)) => {
            return Err(Failure::new("c11:valid-literal-rejected", format!("`{}` at u{bits} denotes {} but is rejected: {}", truncate(&lit, 300), v.to_decimal(), pipe::last_line(e))).with(detail));
        }
    }
    // level 2: inside a program, compared at run time with a witness built from the constructors
    if lit.len() <= 120 || t.chance(1, 8) {
        let text = eq_program(bits, &lit);
        ctx.evals(1);
        match (pipe::new_template(&text), &expect) {
            (Err(p), _) => return Err(pfail("TemplateProgram::new", &p, &text)),
            (Ok(Err(_)), None) => {}
            (Ok(Ok(_)), None) => return Err(Failure::new("c11:malformed-literal-accepted-in-program", format!("`let x: u{bits} = {};` is accepted", truncate(&lit, 300))).with(detail)),
            (Ok(Err(e)), Some(_)) => return Err(Failure::new("c11:valid-literal-rejected-in-program", format!("`let x: u{bits} = {};` is rejected: {}", truncate(&lit, 300), pipe::last_line(&e))).with(detail)),
            (Ok(Ok(_)), Some(v)) => {
                let env = pipe::dummy_env();
                let c = compile(&text, simfony::Arguments::default(), false, "c11")?;
                // W = v must succeed, W = v with one bit flipped must fail
                for (w, want) in [(*v, Verdict::Success), (v.flip_bit(t.index(bits as usize) as u16), Verdict::Fails)] {
                    ctx.evals(1);
                    let wv = conv::witness_values(&[("W".to_string(), Val::UInt(bits, w), ty.clone())]);
                    let out = pipe::satisfy_and_run(&c.program, &c.info, wv, None, &env);
                    let got = judge(&out, "c11", &text, &json!(w.to_decimal()), false)?;
                    if got != want {
                        return Err(Failure::new(
                            "c11:literal-value-differs-at-run-time",
                            format!("`{}` at u{bits} (value {}) compared with witness {}: expected {want:?}, got {got:?}\n{text}", truncate(&lit, 300), v.to_decimal(), w.to_decimal()),
                        )
                        .with(detail));
                    }
                }
            }
        }
    }
    if !label.is_empty() || v == U256::ZERO || v == max {
        ctx.nontrivial(digest(&[lit.as_bytes(), &bits.to_le_bytes()]));
    }
    ctx.sample(lit.len() as u64, || detail.clone());
    Ok(())
}

/// Hex literals at byte arrays.
fn s_bytes(t: &mut Tape, ctx: &mut Ctx) -> Result<(), Failure> {
    let n = t.index(65);
    let bytes: Vec<u8> = (0..n).map(|_| t.next() as u8).collect();
    let mut digits: String = bytes.iter().map(|b| format!("{b:02x}")).collect();
    let mut valid = n > 0;
    let mut label = "exact";
    match t.weighted(&[6, 1, 1, 1]) {
        1 => {
            digits.push('0');
            valid = false;
            label = "odd-length";
        }
        2 => {
            digits.push_str("00");
            valid = false;
            label = "one-byte-more";
        }
        3 if n > 0 => {
            digits.truncate(digits.len() - 2);
            valid = false;
            label = "one-byte-fewer";
        }
        _ => {}
    }
    if t.chance(1, 3) {
        digits = digits.to_uppercase();
    }
    let (d, _) = decorate(t, &digits);
    let lit = format!("0x{d}");
    if d.chars().all(|c| c == '_') {
        valid = false;
    }
    ctx.label(&format!("bytes:{label}"));
    let ty = Ty::array(Ty::UInt(8), n);
    let rty = conv::to_resolved(&ty);
    ctx.evals(1);
    let parsed = catch(|| Value::parse_from_str(&lit, &rty).map_err(|e| e.to_string())).map_err(|p| pfail("Value::parse_from_str", &p, &lit))?;
    let want = conv::to_value(&Val::Array(bytes.iter().map(|b| Val::uint(8, *b as u128)).collect()), &ty);
    let detail = json!({"literal": lit, "type": ty.to_string()});
    match (parsed, valid) {
        (Ok(got), true) if got == want => {}
        (Ok(got), true) => return Err(Failure::new("c11:byte-literal-denotes-wrong-bytes", format!("`{lit}` at {ty} parses to {got}")).with(detail)),
        (Err(e), true) => return Err(Failure::new("c11:valid-byte-literal-rejected", format!("`{lit}` at {ty} is rejected: {}", pipe::last_line(&e))).with(detail)),
        (Ok(got), false) => return Err(Failure::new("c11:malformed-byte-literal-accepted", format!("`{lit}` at {ty} ({label}) must be rejected but parses to {got}")).with(detail)),
        (Err(_), false) => {}
    }
    // the same digits at an array whose elements are not bytes, alone and as an element of an
    // outer array / list: whatever is returned must be of the requested type (a hex string has no
    // meaning there, so in practice: rejected), and nothing panics
    if t.chance(1, 3) {
        let elem = match t.index(8) {
            0 => Ty::UInt(1),
            1 => Ty::UInt(4),
            2 => Ty::UInt(16),
            3 => Ty::UInt(32),
            4 => Ty::Bool,
            5 => Ty::unit(),
            6 => Ty::array(Ty::UInt(8), 1),
            _ => Ty::option(Ty::UInt(8)),
        };
        let inner = Ty::array(elem, n);
        let (oty, otext) = match t.index(4) {
            0 => (inner.clone(), lit.clone()),
            1 => (Ty::array(inner.clone(), 1), format!("[{lit}]")),
            2 => (Ty::list(inner.clone(), 2), format!("list![{lit}]")),
            _ => (Ty::option(inner.clone()), format!("Some({lit})")),
        };
        let orty = conv::to_resolved(&oty);
        ctx.evals(1);
        ctx.label("bytes:at-non-byte-array");
        let parsed = catch(|| Value::parse_from_str(&otext, &orty).map(|v| (v.is_of_type(&orty), v.to_string())).map_err(|e| e.to_string())).map_err(|p| pfail("Value::parse_from_str", &p, &otext))?;
        if let Ok((false, shown)) = parsed {
            return Err(Failure::new("c11:literal-value-not-of-requested-type", format!("`{otext}` at {oty} parses to `{shown}`, which is not a value of that type")).with(json!({"literal": otext, "type": oty.to_string()})));
        }
    }
    ctx.nontrivial(digest(&[lit.as_bytes(), &n.to_le_bytes()]));
    ctx.sample(lit.len() as u64, || detail.clone());
    let _ = HashMap::<u8, u8>::new();
    Ok(())
}

pub fn streams() -> Vec<Stream> {
    vec![
        Stream { name: "literals", kind: Kind::Tape { cases: |t: Tier| t.pick(300_000, 6_000_000), max_len: 400, f: s_literals }, isolate: false },
        Stream { name: "bytes", kind: Kind::Tape { cases: |t: Tier| t.pick(100_000, 2_000_000), max_len: 200, f: s_bytes }, isolate: false },
    ]
}

pub fn def() -> PropertyDef {
    PropertyDef {
        id: "C11",
        rule: "literals: width N in {1,2,4,8,16,32,64,128,256} x value (0, 1, 2, 2^N-1, powers of ten and neighbours, alternating bit patterns, random) x notation {decimal, binary, hex} x decoration (underscores anywhere incl. leading / trailing / doubled, up to 90 leading zeros, one digit more / fewer, digit string of another width, 2^N and 2^N+1, 90-110 digit runs, upper-case hex, no digit at all, one digit that does not belong to the radix - judged inside programs only). Oracle: own big-integer arithmetic (schoolbook on 32-bit limbs) gives the mathematical value and the accept / reject verdict of the statement; Value::parse_from_str(lit, uN) must equal the value built with the Rust constructors or be Err; `let x: uN = LIT; assert!(eq(x, witness::W))` must be accepted iff valid, succeed for W = value and fail for W with one bit flipped (through commit / satisfy / encode / decode / Bit Machine); the printed integer parses back. bytes: hex literals at [u8; n], n in 0..64, exact / odd / one byte more / fewer; in a third of the cases the same digits also at [T; n] for T in {u1,u4,u16,u32,bool,(),[u8;1],Option<u8>}, alone or inside an outer array / list / Some: the result must be Err or a value of the requested type, and must not panic. evaluations = parses + program runs. Non-trivial = decorated or boundary literal; distinct by digest of (literal, width).",
        assumptions: &[],
        streams,
        health: &[("literals", "lit:underscores", 100), ("literals", "lit:no-digit", 10), ("literals", "lit:overflow", 10)],
    }
}
