//! Choice tape: the only source of randomness inside a property.
//!
//! A tape is a `Vec<u32>` consumed left to right.  An exhausted tape yields 0 and 0
//! always selects the simplest alternative, so deleting or lowering tape elements
//! (which is what proptest's shrinking of `vec(any::<u32>())` does) shrinks the decoded
//! object.  Index mapping is monotone (`v * n >> 32`), never `%`.

#[derive(Clone, Debug)]
pub struct Tape {
    data: Vec<u32>,
    pos: usize,
}

impl Tape {
    pub fn new(data: Vec<u32>) -> Self {
        Tape { data, pos: 0 }
    }

    /// Tape from raw fuzzer bytes (little endian u32 words, trailing bytes zero padded).
    pub fn from_bytes(bytes: &[u8]) -> Self {
        let mut data = Vec::with_capacity(bytes.len() / 4 + 1);
        for chunk in bytes.chunks(4) {
            let mut w = [0u8; 4];
            w[..chunk.len()].copy_from_slice(chunk);
            data.push(u32::from_le_bytes(w));
        }
        Tape::new(data)
    }

    pub fn data(&self) -> &[u32] {
        &self.data
    }

    pub fn consumed(&self) -> usize {
        self.pos
    }

    pub fn exhausted(&self) -> bool {
        self.pos >= self.data.len()
    }

    pub fn next(&mut self) -> u32 {
        let v = self.data.get(self.pos).copied().unwrap_or(0);
        self.pos += 1;
        v
    }

    /// Uniform choice in `0..n` (monotone in the tape element). `n == 0` yields 0.
    pub fn below(&mut self, n: u64) -> u64 {
        if n <= 1 {
            // still consume, so that the tape layout does not depend on n
            self.next();
            return 0;
        }
        if n <= (1 << 32) {
            ((self.next() as u64) * n) >> 32
        } else {
            let hi = self.next() as u128;
            let lo = self.next() as u128;
            let v = (hi << 32) | lo;
            ((v * (n as u128)) >> 64) as u64
        }
    }

    pub fn index(&mut self, n: usize) -> usize {
        self.below(n as u64) as usize
    }

    /// Inclusive range.
    pub fn range(&mut self, lo: u64, hi: u64) -> u64 {
        debug_assert!(lo <= hi);
        lo + self.below(hi - lo + 1)
    }

    /// True with probability `num/den`; an exhausted tape yields false.
    pub fn chance(&mut self, num: u64, den: u64) -> bool {
        // map so that 0 -> false
        self.below(den) >= den - num
    }

    pub fn bool(&mut self) -> bool {
        self.below(2) == 1
    }

    /// Weighted choice; alternative 0 is the "simplest".
    pub fn weighted(&mut self, weights: &[u32]) -> usize {
        let total: u64 = weights.iter().map(|w| *w as u64).sum();
        if total == 0 {
            self.next();
            return 0;
        }
        let mut x = self.below(total);
        for (i, w) in weights.iter().enumerate() {
            if x < *w as u64 {
                return i;
            }
            x -= *w as u64;
        }
        weights.len() - 1
    }

    pub fn pick<'a, T>(&mut self, items: &'a [T]) -> &'a T {
        let i = self.index(items.len());
        &items[i]
    }

    pub fn u64(&mut self) -> u64 {
        ((self.next() as u64) << 32) | self.next() as u64
    }

    pub fn u128(&mut self) -> u128 {
        ((self.u64() as u128) << 64) | self.u64() as u128
    }
}

/// splitmix64, used only to derive per-shard proptest seeds from VERIF_SEED.
pub fn splitmix(mut x: u64) -> u64 {
    x = x.wrapping_add(0x9E3779B97F4A7C15);
    let mut z = x;
    z = (z ^ (z >> 30)).wrapping_mul(0xBF58476D1CE4E5B9);
    z = (z ^ (z >> 27)).wrapping_mul(0x94D049BB133111EB);
    z ^ (z >> 31)
}

pub fn derive_seed(seed: u64, name: &str, shard: u64) -> u64 {
    let mut h = splitmix(seed ^ 0x5163_6f6e_7921);
    for b in name.bytes() {
        h = splitmix(h ^ b as u64);
    }
    splitmix(h ^ shard.wrapping_mul(0x1000_0000_01b3))
}

/// FNV-1a 64 over bytes: deterministic digest for "distinct case" counting.
pub fn digest(parts: &[&[u8]]) -> u64 {
    let mut h: u64 = 0xcbf29ce484222325;
    for p in parts {
        for b in p.iter() {
            h ^= *b as u64;
            h = h.wrapping_mul(0x100000001b3);
        }
        h ^= 0xff;
        h = h.wrapping_mul(0x100000001b3);
    }
    splitmix(h)
}
