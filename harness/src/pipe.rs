//! Pipeline driver: text -> template -> instantiate -> commit -> satisfy -> encode ->
//! decode -> Bit Machine, every stage wrapped in `catch_unwind`.

use std::sync::Arc;

use simfony::elements;
use simfony::simplicity::dag::{DagLike, InternalSharing};
use simfony::simplicity::jet::elements::ElementsEnv;
use simfony::simplicity::jet::Elements;
use simfony::simplicity::node::Inner;
use simfony::simplicity::{BitIter, BitMachine, Cmr, RedeemNode};
use simfony::{Arguments, CompiledProgram, SatisfiedProgram, TemplateProgram, WitnessValues};

use crate::run::catch;

pub type Env = ElementsEnv<Arc<elements::Transaction>>;

#[derive(Clone, Debug, PartialEq, Eq)]
pub enum Stage {
    New,
    Parameters,
    Instantiate,
    Commit,
    Satisfy,
    Encode,
    Decode,
    Exec,
    ExecDecoded,
    Inspect,
}

#[derive(Clone, Debug)]
pub struct Ran {
    pub commit_cmr: Cmr,
    pub redeem_cmr: Cmr,
    pub commit_is_unit_to_unit: bool,
    /// CMR of the decoded program, or the decoder's error
    pub decoded: Result<Cmr, String>,
    /// execution of the program returned by satisfy
    pub exec: Result<(), String>,
    /// execution of the decoded program (if decoding worked)
    pub exec_decoded: Option<Result<(), String>>,
    pub witness_typing_ok: bool,
    /// the program contains an assertl and an assertr node with the same CMR (a case whose two
    /// branches are identical, pruned to the left at one place and to the right at another)
    pub mirror_asserts: bool,
    /// every witness value re-decodes from its own compact bits to the same padded bits
    pub witness_values_consistent: bool,
    pub n_nodes: usize,
    pub n_case: usize,
    pub n_witness: usize,
    /// sum of the bit widths of the witness nodes' final types
    pub witness_bits: usize,
    pub program_bytes: usize,
    pub witness_bytes: usize,
}

impl Ran {
    /// success = decodes and both executions succeed
    pub fn success(&self) -> bool {
        self.decoded.is_ok() && self.exec.is_ok() && matches!(self.exec_decoded, Some(Ok(())))
    }
    pub fn clean_failure(&self) -> bool {
        self.decoded.is_ok() && self.exec.is_err() && matches!(self.exec_decoded, Some(Err(_)))
    }
}

#[derive(Clone, Debug)]
pub enum Outcome {
    Rejected(String),
    InstantiateErr(String),
    SatisfyErr(String),
    Ran(Ran),
    Panicked { stage: Stage, msg: String },
}

impl Outcome {
    pub fn brief(&self) -> String {
        match self {
            Outcome::Rejected(m) => format!("Rejected: {}", last_line(m)),
            Outcome::InstantiateErr(m) => format!("InstantiateErr: {}", last_line(m)),
            Outcome::SatisfyErr(m) => format!("SatisfyErr: {}", last_line(m)),
            Outcome::Ran(r) => format!(
                "Ran(decode={}, exec={}, exec_decoded={}, cmr_eq={}, wit_typing={}, mirror_asserts={})",
                r.decoded.as_ref().map(|_| "ok".to_string()).unwrap_or_else(|e| format!("ERR {e}")),
                r.exec.as_ref().map(|_| "ok".to_string()).unwrap_or_else(|e| format!("ERR {e}")),
                match &r.exec_decoded {
                    None => "-".to_string(),
                    Some(Ok(())) => "ok".to_string(),
                    Some(Err(e)) => format!("ERR {e}"),
                },
                r.commit_cmr == r.redeem_cmr,
                r.witness_typing_ok,
                r.mirror_asserts
            ),
            Outcome::Panicked { stage, msg } => format!("PANIC at {stage:?}: {msg}"),
        }
    }
}

pub fn last_line(s: &str) -> &str {
    s.lines().last().unwrap_or("")
}

pub fn dummy_env() -> Env {
    simfony::dummy_env::dummy()
}

pub fn new_template(text: &str) -> Result<Result<TemplateProgram, String>, String> {
    catch(|| TemplateProgram::new(text))
}

pub fn instantiate(t: &TemplateProgram, args: Arguments, debug: bool) -> Result<Result<CompiledProgram, String>, String> {
    catch(|| t.instantiate(args, debug))
}

pub struct CommitInfo {
    pub cmr: Cmr,
    pub unit_to_unit: bool,
    pub bytes: Vec<u8>,
}

pub fn commit(c: &CompiledProgram) -> Result<CommitInfo, String> {
    catch(|| {
        let node = c.commit();
        let arrow = node.arrow();
        CommitInfo {
            cmr: node.cmr(),
            unit_to_unit: arrow.source.is_unit() && arrow.target.is_unit(),
            bytes: node.encode_to_vec(),
        }
    })
}

pub fn exec(node: &RedeemNode<Elements>, env: &Env) -> Result<Result<(), String>, String> {
    catch(|| {
        let mut mac = match BitMachine::for_program(node) {
            Ok(m) => m,
            Err(e) => return Err(format!("limit: {e}")),
        };
        match mac.exec(node, env) {
            Ok(_) => Ok(()),
            Err(e) => Err(e.to_string()),
        }
    })
}

/// Inspect, encode, decode and run a satisfied program.
pub fn run_satisfied(commit_cmr: Cmr, unit_to_unit: bool, s: &SatisfiedProgram, env: &Env) -> Outcome {
    let redeem = Arc::clone(s.redeem());
    // inspect
    let insp = catch(|| {
        let mut ok = true;
        let mut consistent = true;
        let mut kinds_by_ihr: std::collections::HashMap<simfony::simplicity::Ihr, std::collections::BTreeSet<u8>> = std::collections::HashMap::new();
        let mut assert_l: Vec<Cmr> = vec![];
        let mut assert_r: Vec<Cmr> = vec![];
        let (mut n, mut ncase, mut nwit, mut wbits) = (0usize, 0usize, 0usize, 0usize);
        for item in redeem.as_ref().post_order_iter::<InternalSharing>() {
            n += 1;
            match item.node.inner() {
                Inner::Witness(v) => {
                    nwit += 1;
                    wbits += item.node.arrow().target.bit_width();
                    if !v.is_of_type(&item.node.arrow().target) {
                        ok = false;
                    }
                    // self-consistency of the value object (compact bits vs padded bits)
                    let compact: Vec<bool> = v.iter_compact().collect();
                    let bytes: Vec<u8> = compact.chunks(8).map(|c| c.iter().enumerate().fold(0u8, |b, (i, x)| b | ((*x as u8) << (7 - i)))).collect();
                    let mut it = BitIter::from(bytes.into_iter());
                    match simfony::simplicity::Value::from_compact_bits(&mut it, &item.node.arrow().target) {
                        Ok(w) => {
                            if !w.iter_padded().eq(v.iter_padded()) {
                                consistent = false;
                            }
                        }
                        Err(_) => consistent = false,
                    }
                }
                Inner::AssertL(..) => {
                    assert_l.push(item.node.cmr());
                    kinds_by_ihr.entry(item.node.ihr()).or_insert_with(std::collections::BTreeSet::new).insert(1u8);
                    ncase += 1
                }
                Inner::AssertR(..) => {
                    assert_r.push(item.node.cmr());
                    kinds_by_ihr.entry(item.node.ihr()).or_insert_with(std::collections::BTreeSet::new).insert(2u8);
                    ncase += 1
                }
                Inner::Case(..) => {
                    kinds_by_ihr.entry(item.node.ihr()).or_insert_with(std::collections::BTreeSet::new).insert(0u8);
                    ncase += 1
                }
                _ => {}
            }
        }
        // nodes of different kind (case / assertl / assertr) that the dependency gives the same
        // identity hash: its encoder shares nodes by that hash, so one of them replaces the other
        let mirror = kinds_by_ihr.values().any(|k| k.len() >= 2) || assert_l.iter().any(|c| assert_r.contains(c));
        (ok, consistent, mirror, n, ncase, nwit, wbits)
    });
    let (witness_typing_ok, witness_values_consistent, mirror_asserts, n_nodes, n_case, n_witness, witness_bits) = match insp {
        Ok(x) => x,
        Err(msg) => return Outcome::Panicked { stage: Stage::Inspect, msg },
    };
    let redeem_cmr = redeem.cmr();
    let (pb, wb) = match catch(|| redeem.encode_to_vec()) {
        Ok(x) => x,
        Err(msg) => return Outcome::Panicked { stage: Stage::Encode, msg },
    };
    let (program_bytes, witness_bytes) = (pb.len(), wb.len());
    let dec = match catch(|| RedeemNode::<Elements>::decode(BitIter::from(pb.into_iter()), BitIter::from(wb.into_iter()))) {
        Ok(x) => x,
        Err(msg) => return Outcome::Panicked { stage: Stage::Decode, msg },
    };
    let exec_orig = match exec(&redeem, env) {
        Ok(r) => r,
        Err(msg) => return Outcome::Panicked { stage: Stage::Exec, msg },
    };
    let (decoded, exec_decoded) = match dec {
        Ok(node) => {
            let r = match exec(&node, env) {
                Ok(r) => r,
                Err(msg) => return Outcome::Panicked { stage: Stage::ExecDecoded, msg },
            };
            (Ok(node.cmr()), Some(r))
        }
        Err(e) => (Err(e.to_string()), None),
    };
    Outcome::Ran(Ran {
        commit_cmr,
        redeem_cmr,
        commit_is_unit_to_unit: unit_to_unit,
        decoded,
        exec: exec_orig,
        exec_decoded,
        witness_typing_ok,
        mirror_asserts,
        witness_values_consistent,
        n_nodes,
        n_case,
        n_witness,
        witness_bits,
        program_bytes,
        witness_bytes,
    })
}

/// Satisfy (optionally pruned for `prune_env`) and run under `env`.
pub fn satisfy_and_run(c: &CompiledProgram, info: &CommitInfo, wits: WitnessValues, prune_env: Option<&Env>, env: &Env) -> Outcome {
    let sat = match catch(|| c.satisfy_with_env(wits, prune_env)) {
        Ok(Ok(s)) => s,
        Ok(Err(e)) => return Outcome::SatisfyErr(e),
        Err(msg) => return Outcome::Panicked { stage: Stage::Satisfy, msg },
    };
    run_satisfied(info.cmr, info.unit_to_unit, &sat, env)
}

/// The whole pipeline on one input.
pub fn run_full(text: &str, args: Arguments, wits: WitnessValues, debug: bool, env: &Env) -> Outcome {
    let t = match new_template(text) {
        Ok(Ok(t)) => t,
        Ok(Err(e)) => return Outcome::Rejected(e),
        Err(msg) => return Outcome::Panicked { stage: Stage::New, msg },
    };
    let c = match instantiate(&t, args, debug) {
        Ok(Ok(c)) => c,
        Ok(Err(e)) => return Outcome::InstantiateErr(e),
        Err(msg) => return Outcome::Panicked { stage: Stage::Instantiate, msg },
    };
    let info = match commit(&c) {
        Ok(i) => i,
        Err(msg) => return Outcome::Panicked { stage: Stage::Commit, msg },
    };
    satisfy_and_run(&c, &info, wits, None, env)
}

/// Correct restriction of `value` to `ty` (the value's type with some subtrees replaced by unit),
/// computed from compact bits only; `None` if `ty` is not such a restriction.
pub fn restrict_value(value: &simfony::simplicity::Value, ty: &simfony::simplicity::types::Final) -> Option<Vec<bool>> {
    use simfony::simplicity::types::CompleteBound;
    fn go(v: simfony::simplicity::ValueRef, ty: &simfony::simplicity::types::Final, out: &mut Vec<bool>) -> Option<()> {
        match ty.bound() {
            CompleteBound::Unit => Some(()),
            CompleteBound::Sum(l, r) => {
                if let Some(x) = v.as_left() {
                    out.push(false);
                    go(x, l, out)
                } else {
                    out.push(true);
                    go(v.as_right()?, r, out)
                }
            }
            CompleteBound::Product(l, r) => {
                let (a, b) = v.as_product()?;
                go(a, l, out)?;
                go(b, r, out)
            }
        }
    }
    let mut out = vec![];
    go(value.as_ref(), ty, &mut out)?;
    Some(out)
}

/// Root-cause predicate for a known defect of simplicity-lang 0.4.0: does `RedeemNode::prune`
/// (which shrinks witness values with `Value::prune`) leave a witness value in the pruned program
/// that is not the correct restriction of a witness value of the unpruned program, or return a
/// program that does not run under the environment it was pruned for? Both are computed from the
/// dependency call `unpruned.prune(env)` alone, before simfony touches the result.
pub fn dependency_prune_corrupts_witness(c: &CompiledProgram, wits: WitnessValues, env: &Env) -> bool {
    let r = catch(|| {
        let sat = c.satisfy(wits).ok()?;
        let unpruned = Arc::clone(sat.redeem());
        let raw = unpruned.prune(env).ok()?;
        let originals: Vec<simfony::simplicity::Value> = unpruned
            .as_ref()
            .post_order_iter::<InternalSharing>()
            .filter_map(|i| match i.node.inner() {
                Inner::Witness(v) => Some(v.shallow_clone()),
                _ => None,
            })
            .collect();
        // (a) the dependency's own result does not run under the environment it was pruned for
        if !matches!(exec(&raw, env), Ok(Ok(()))) {
            return Some(true);
        }
        // (b) its witness values are not, in order, restrictions of original witness values
        let mut next = 0usize;
        for item in raw.as_ref().post_order_iter::<InternalSharing>() {
            if let Inner::Witness(p) = item.node.inner() {
                let ty = &item.node.arrow().target;
                let got: Vec<bool> = p.iter_compact().collect();
                match (next..originals.len()).find(|&i| restrict_value(&originals[i], ty).map_or(false, |bits| bits == got)) {
                    Some(i) => next = i + 1,
                    None => return Some(true),
                }
            }
        }
        Some(false)
    });
    matches!(r, Ok(Some(true)))
}
