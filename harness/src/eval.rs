//! Reference interpreter: strict call-by-value big-step evaluation of the model program.
//! Never looks at simfony's AST, types or code generator.

use std::collections::HashMap;

use crate::jets;
use crate::layout;
use crate::model::*;

#[derive(Clone, Debug, PartialEq, Eq)]
pub enum Stop {
    /// the program panics (assert!, panic!, unwrap*, failing jet)
    Panic(String),
    /// the interpreter cannot predict (jet without reference, missing witness, step budget)
    Unsupported(String),
    /// the program is not well-typed for the interpreter (generator bug)
    IllTyped(String),
}

#[derive(Clone, Debug, Default)]
pub struct Holes {
    /// value recorded for each hole
    pub values: Vec<Option<Val>>,
    /// holes whose recorded value is deliberately wrong (one bit flipped)
    pub perturb: Vec<bool>,
    /// recording mode: unfilled holes take the value they are compared with
    pub recording: bool,
}

pub struct Evaluator<'a> {
    pub prog: &'a Program,
    pub wits: &'a HashMap<String, Val>,
    pub params: &'a HashMap<String, Val>,
    pub holes: Holes,
    pub steps: u64,
    pub max_steps: u64,
    /// number of fold / loop iterations executed, match arms taken ... (for labels)
    pub iterations: u64,
    /// externally supplied results for jets without a native reference (C13's direct differential):
    /// name -> Ok(value) or Err(()) when the jet fails
    pub jet_results: HashMap<String, Result<Val, ()>>,
}

type Env = Vec<Vec<(String, Val)>>;

fn lookup<'e>(env: &'e Env, name: &str) -> Option<&'e Val> {
    for scope in env.iter().rev() {
        for (n, v) in scope.iter().rev() {
            if n == name {
                return Some(v);
            }
        }
    }
    None
}

fn bind(p: &Pat, v: &Val, scope: &mut Vec<(String, Val)>) -> Result<(), Stop> {
    match (p, v) {
        (Pat::Id(n), v) => {
            scope.push((n.clone(), v.clone()));
            Ok(())
        }
        (Pat::Ignore, _) => Ok(()),
        (Pat::Tuple(ps), Val::Tuple(vs)) if ps.len() == vs.len() => {
            for (p, v) in ps.iter().zip(vs) {
                bind(p, v, scope)?;
            }
            Ok(())
        }
        (Pat::Array(ps), Val::Array(vs)) if ps.len() == vs.len() => {
            for (p, v) in ps.iter().zip(vs) {
                bind(p, v, scope)?;
            }
            Ok(())
        }
        (p, v) => Err(Stop::IllTyped(format!("pattern {p:?} does not match value {v:?}"))),
    }
}

fn perturb_val(v: &Val) -> Val {
    match v {
        Val::Bool(b) => Val::Bool(!b),
        Val::UInt(n, x) => Val::UInt(*n, x.flip_bit(0)),
        other => other.clone(),
    }
}

impl<'a> Evaluator<'a> {
    pub fn new(prog: &'a Program, wits: &'a HashMap<String, Val>, params: &'a HashMap<String, Val>) -> Self {
        Evaluator {
            prog,
            wits,
            params,
            holes: Holes::default(),
            steps: 0,
            max_steps: 3_000_000,
            iterations: 0,
            jet_results: HashMap::new(),
        }
    }

    /// Run `main`.
    pub fn run(&mut self) -> Result<(), Stop> {
        let main = self.prog.main().ok_or_else(|| Stop::IllTyped("no main".into()))?;
        let mut env: Env = vec![vec![]];
        let body = main.body.clone();
        self.eval(&body, &Ty::unit(), &mut env).map(|_| ())
    }

    fn tick(&mut self) -> Result<(), Stop> {
        self.steps += 1;
        if self.steps > self.max_steps {
            Err(Stop::Unsupported("step budget".into()))
        } else {
            Ok(())
        }
    }

    fn hole(&mut self, i: usize, partner: &Val) -> Val {
        if self.holes.values.len() <= i {
            self.holes.values.resize(i + 1, None);
        }
        if let Some(v) = &self.holes.values[i] {
            return v.clone();
        }
        if self.holes.recording {
            let v = if self.holes.perturb.get(i).copied().unwrap_or(false) { perturb_val(partner) } else { partner.clone() };
            self.holes.values[i] = Some(v.clone());
            v
        } else {
            // unfilled hole outside recording mode: behaves as the zero value
            match partner {
                Val::Bool(_) => Val::Bool(false),
                Val::UInt(n, _) => Val::UInt(*n, U256::ZERO),
                other => other.clone(),
            }
        }
    }

    pub fn call_fn(&mut self, f: &FnDef, args: Vec<Val>) -> Result<Val, Stop> {
        if args.len() != f.params.len() {
            return Err(Stop::IllTyped(format!("arity of {}", f.name)));
        }
        let mut scope = vec![];
        for ((n, _), v) in f.params.iter().zip(args) {
            scope.push((n.clone(), v));
        }
        let mut env: Env = vec![scope];
        let rt = f.ret_ty();
        self.eval(&f.body, &rt, &mut env)
    }

    pub fn eval(&mut self, e: &Expr, ty: &Ty, env: &mut Env) -> Result<Val, Stop> {
        self.tick()?;
        let rty = ty.resolved_head().clone();
        match e {
            Expr::Bool(b) => match rty {
                Ty::Bool => Ok(Val::Bool(*b)),
                _ => Err(Stop::IllTyped(format!("bool literal at {ty}"))),
            },
            Expr::Int(v, _, _) => match rty {
                Ty::UInt(n) if *v <= U256::max_of(n) => Ok(Val::UInt(n, *v)),
                _ => Err(Stop::IllTyped(format!("integer literal {} at {ty}", v.to_decimal()))),
            },
            Expr::RawLit(s) => Err(Stop::Unsupported(format!("raw literal {s}"))),
            Expr::HexBytes(bytes) => match &rty {
                Ty::Array(el, n) if matches!(el.resolved_head(), Ty::UInt(8)) && *n == bytes.len() => {
                    Ok(Val::Array(bytes.iter().map(|b| Val::uint(8, *b as u128)).collect()))
                }
                _ => Err(Stop::IllTyped(format!("byte literal at {ty}"))),
            },
            Expr::Var(n) => lookup(env, n).cloned().ok_or_else(|| Stop::IllTyped(format!("unbound variable {n}"))),
            Expr::Witness(n) => self.wits.get(n).cloned().ok_or_else(|| Stop::Unsupported(format!("missing witness {n}"))),
            Expr::Param(n) => self.params.get(n).cloned().ok_or_else(|| Stop::Unsupported(format!("missing argument {n}"))),
            Expr::Hole(_) => Err(Stop::IllTyped("hole outside an observation".into())),
            Expr::Tuple(es) => match &rty {
                Ty::Tuple(ts) if ts.len() == es.len() => {
                    let mut out = vec![];
                    for (x, t) in es.iter().zip(ts) {
                        out.push(self.eval(x, t, env)?);
                    }
                    Ok(Val::Tuple(out))
                }
                _ => Err(Stop::IllTyped(format!("tuple at {ty}"))),
            },
            Expr::Array(es) => match &rty {
                Ty::Array(t, n) if *n == es.len() => {
                    let mut out = vec![];
                    for x in es {
                        out.push(self.eval(x, t, env)?);
                    }
                    Ok(Val::Array(out))
                }
                _ => Err(Stop::IllTyped(format!("array at {ty}"))),
            },
            Expr::List(es) => match &rty {
                Ty::List(t, n) if es.len() < *n => {
                    let mut out = vec![];
                    for x in es {
                        out.push(self.eval(x, t, env)?);
                    }
                    Ok(Val::List(out))
                }
                _ => Err(Stop::IllTyped(format!("list at {ty}"))),
            },
            Expr::Left(x) => match &rty {
                Ty::Either(a, _) => Ok(Val::Left(Box::new(self.eval(x, a, env)?))),
                _ => Err(Stop::IllTyped(format!("Left at {ty}"))),
            },
            Expr::Right(x) => match &rty {
                Ty::Either(_, b) => Ok(Val::Right(Box::new(self.eval(x, b, env)?))),
                _ => Err(Stop::IllTyped(format!("Right at {ty}"))),
            },
            Expr::Some(x) => match &rty {
                Ty::Option(a) => Ok(Val::Some(Box::new(self.eval(x, a, env)?))),
                _ => Err(Stop::IllTyped(format!("Some at {ty}"))),
            },
            Expr::None => match &rty {
                Ty::Option(_) => Ok(Val::None),
                _ => Err(Stop::IllTyped(format!("None at {ty}"))),
            },
            Expr::Paren(x) => self.eval(x, ty, env),
            Expr::Block(stmts, last) => {
                env.push(vec![]);
                let r = self.eval_block(stmts, last.as_deref(), ty, env);
                env.pop();
                r
            }
            Expr::Match { kind, scrut, left, right, .. } => {
                let sty = match kind {
                    MatchKind::Bool => Ty::Bool,
                    MatchKind::Option => Ty::option(right.binder.as_ref().map(|b| b.1.clone()).ok_or_else(|| Stop::IllTyped("Some arm without binder".into()))?),
                    MatchKind::Either => Ty::either(
                        left.binder.as_ref().map(|b| b.1.clone()).ok_or_else(|| Stop::IllTyped("Left arm without binder".into()))?,
                        right.binder.as_ref().map(|b| b.1.clone()).ok_or_else(|| Stop::IllTyped("Right arm without binder".into()))?,
                    ),
                };
                let sv = self.eval(scrut, &sty, env)?;
                self.iterations += 1;
                let (arm, payload): (&Arm, Option<Val>) = match sv {
                    Val::Bool(false) | Val::None => (left, None),
                    Val::Bool(true) => (right, None),
                    Val::Left(x) => (left, Some(*x)),
                    Val::Right(x) | Val::Some(x) => (right, Some(*x)),
                    other => return Err(Stop::IllTyped(format!("scrutinee {other:?}"))),
                };
                let mut scope = vec![];
                if let (Some((n, _)), Some(p)) = (&arm.binder, payload) {
                    scope.push((n.clone(), p));
                }
                env.push(scope);
                let r = self.eval(&arm.body, ty, env);
                env.pop();
                r
            }
            Expr::Call(name, args) => self.eval_call(name, args, ty, env),
        }
    }

    fn eval_block(&mut self, stmts: &[Stmt], last: Option<&Expr>, ty: &Ty, env: &mut Env) -> Result<Val, Stop> {
        for s in stmts {
            match s {
                Stmt::Let(p, t, e) => {
                    // the right-hand side sees only the bindings before it
                    let v = self.eval(e, t, env)?;
                    let scope = env.last_mut().unwrap();
                    bind(p, &v, scope)?;
                }
                Stmt::Expr(e) => {
                    self.eval(e, &Ty::unit(), env)?;
                }
            }
        }
        match last {
            Some(e) => self.eval(e, ty, env),
            None => {
                if ty.is_unit() {
                    Ok(Val::unit())
                } else {
                    Err(Stop::IllTyped(format!("block without final expression at {ty}")))
                }
            }
        }
    }

    fn args_n(&self, args: &[Expr], n: usize, what: &str) -> Result<(), Stop> {
        if args.len() == n {
            Ok(())
        } else {
            Err(Stop::IllTyped(format!("{what}: expected {n} arguments, found {}", args.len())))
        }
    }

    fn eval_call(&mut self, name: &CallName, args: &[Expr], ty: &Ty, env: &mut Env) -> Result<Val, Stop> {
        match name {
            CallName::Jet(j) => {
                let sig = jets::sig(j).ok_or_else(|| Stop::IllTyped(format!("unknown jet {j}")))?;
                self.args_n(args, sig.params.len(), j)?;
                if !sig.ret.same(ty) {
                    return Err(Stop::IllTyped(format!("jet {j} returns {} but context wants {ty}", sig.ret)));
                }
                // observation pattern: eq_N(x, HOLE)
                if args.len() == 2 && j.starts_with("eq_") {
                    if let Expr::Hole(i) = &args[1] {
                        let a = self.eval(&args[0], &sig.params[0], env)?;
                        let h = self.hole(*i, &a);
                        return Ok(Val::Bool(a == h));
                    }
                }
                let mut vals = vec![];
                for (a, t) in args.iter().zip(&sig.params) {
                    vals.push(self.eval(a, t, env)?);
                }
                // an externally supplied result applies to the first call of that jet only
                if let Some(r) = self.jet_results.remove(j.as_str()) {
                    return match r {
                        Ok(v) => Ok(v),
                        Err(()) => Err(Stop::Panic(format!("jet {j} failed"))),
                    };
                }
                match jets::eval(j, &vals) {
                    None => Err(Stop::Unsupported(format!("jet {j} has no reference"))),
                    Some(Err(())) => Err(Stop::Panic(format!("jet {j} failed"))),
                    Some(Ok(v)) => Ok(v),
                }
            }
            CallName::UnwrapLeft(r) => {
                self.args_n(args, 1, "unwrap_left")?;
                let t = Ty::either(ty.clone(), r.clone());
                match self.eval(&args[0], &t, env)? {
                    Val::Left(x) => Ok(*x),
                    _ => Err(Stop::Panic("unwrap_left on Right".into())),
                }
            }
            CallName::UnwrapRight(l) => {
                self.args_n(args, 1, "unwrap_right")?;
                let t = Ty::either(l.clone(), ty.clone());
                match self.eval(&args[0], &t, env)? {
                    Val::Right(x) => Ok(*x),
                    _ => Err(Stop::Panic("unwrap_right on Left".into())),
                }
            }
            CallName::Unwrap => {
                self.args_n(args, 1, "unwrap")?;
                let t = Ty::option(ty.clone());
                match self.eval(&args[0], &t, env)? {
                    Val::Some(x) => Ok(*x),
                    _ => Err(Stop::Panic("unwrap on None".into())),
                }
            }
            CallName::IsNone(inner) => {
                self.args_n(args, 1, "is_none")?;
                let t = Ty::option(inner.clone());
                match self.eval(&args[0], &t, env)? {
                    Val::None => Ok(Val::Bool(true)),
                    _ => Ok(Val::Bool(false)),
                }
            }
            CallName::Assert => {
                self.args_n(args, 1, "assert!")?;
                if let Expr::Hole(i) = &args[0] {
                    let h = self.hole(*i, &Val::Bool(true));
                    return match h {
                        Val::Bool(true) => Ok(Val::unit()),
                        _ => Err(Stop::Panic("assert!(false) [hole]".into())),
                    };
                }
                match self.eval(&args[0], &Ty::Bool, env)? {
                    Val::Bool(true) => Ok(Val::unit()),
                    _ => Err(Stop::Panic("assert!(false)".into())),
                }
            }
            CallName::Panic => {
                self.args_n(args, 0, "panic!")?;
                Err(Stop::Panic("panic!()".into()))
            }
            CallName::Dbg => {
                self.args_n(args, 1, "dbg!")?;
                self.eval(&args[0], ty, env)
            }
            CallName::Cast(src) => {
                self.args_n(args, 1, "cast")?;
                let v = self.eval(&args[0], src, env)?;
                layout::cast(&v, src, ty).ok_or_else(|| Stop::IllTyped(format!("cast {src} -> {ty}")))
            }
            CallName::Fn(fname) => {
                let f = self.prog.function(fname).ok_or_else(|| Stop::IllTyped(format!("unknown function {fname}")))?.clone();
                self.args_n(args, f.params.len(), fname)?;
                let mut vals = vec![];
                for (a, (_, t)) in args.iter().zip(&f.params) {
                    vals.push(self.eval(a, t, env)?);
                }
                self.call_fn(&f, vals)
            }
            CallName::Fold(fname, bound) => {
                let f = self.prog.function(fname).ok_or_else(|| Stop::IllTyped(format!("unknown function {fname}")))?.clone();
                self.args_n(args, 2, "fold")?;
                if f.params.len() != 2 {
                    return Err(Stop::IllTyped("fold function arity".into()));
                }
                let lt = Ty::list(f.params[0].1.clone(), *bound);
                let list = self.eval(&args[0], &lt, env)?;
                let mut acc = self.eval(&args[1], &f.params[1].1, env)?;
                let Val::List(items) = list else { return Err(Stop::IllTyped("fold over non-list".into())) };
                for it in items {
                    self.iterations += 1;
                    acc = self.call_fn(&f, vec![it, acc])?;
                }
                Ok(acc)
            }
            CallName::ForWhile(fname) => {
                let f = self.prog.function(fname).ok_or_else(|| Stop::IllTyped(format!("unknown function {fname}")))?.clone();
                self.args_n(args, 2, "for_while")?;
                if f.params.len() != 3 {
                    return Err(Stop::IllTyped("loop function arity".into()));
                }
                let mut acc = self.eval(&args[0], &f.params[0].1, env)?;
                let ctxv = self.eval(&args[1], &f.params[1].1, env)?;
                let width = match f.params[2].1.resolved_head() {
                    Ty::UInt(n) if *n <= 16 => *n,
                    _ => return Err(Stop::IllTyped("loop counter type".into())),
                };
                for i in 0..(1u128 << width) {
                    self.iterations += 1;
                    match self.call_fn(&f, vec![acc.clone(), ctxv.clone(), Val::uint(width, i)])? {
                        Val::Left(b) => return Ok(Val::Left(b)),
                        Val::Right(a) => acc = *a,
                        other => return Err(Stop::IllTyped(format!("loop body returned {other:?}"))),
                    }
                }
                Ok(Val::Right(Box::new(acc)))
            }
        }
    }
}

/// Convenience: evaluate `main` under an assignment.
pub fn run_main(prog: &Program, wits: &HashMap<String, Val>, params: &HashMap<String, Val>) -> Result<(), Stop> {
    Evaluator::new(prog, wits, params).run()
}

/// Recording run: fill the observation holes of `prog` under the intended assignment and
/// return the program with holes replaced by literals. Holes that are never reached become 0 / false.
pub fn fill_holes(prog: &Program, wits: &HashMap<String, Val>, params: &HashMap<String, Val>, perturb: Vec<bool>) -> (Program, Result<(), Stop>) {
    fill_holes_with(prog, wits, params, perturb, HashMap::new())
}

pub fn fill_holes_with(prog: &Program, wits: &HashMap<String, Val>, params: &HashMap<String, Val>, perturb: Vec<bool>, jet_results: HashMap<String, Result<Val, ()>>) -> (Program, Result<(), Stop>) {
    let mut ev = Evaluator::new(prog, wits, params);
    ev.jet_results = jet_results;
    ev.holes.recording = true;
    ev.holes.perturb = perturb;
    let verdict = ev.run();
    let values = ev.holes.values.clone();
    let mut out = prog.clone();
    for item in out.items.iter_mut() {
        if let Item::Fn(f) = item {
            walk_expr_mut(&mut f.body, &mut |e| {
                if let Expr::Call(name, args) = e {
                    match name {
                        CallName::Jet(j) if j.starts_with("eq_") && args.len() == 2 => {
                            if let Expr::Hole(i) = &args[1] {
                                let bits: u16 = j[3..].parse().unwrap_or(8);
                                let v = match values.get(*i).cloned().flatten() {
                                    Some(Val::UInt(_, x)) => x,
                                    _ => U256::ZERO,
                                };
                                args[1] = Expr::Int(v, bits, LitStyle::Dec);
                            }
                        }
                        CallName::Assert if args.len() == 1 => {
                            if let Expr::Hole(i) = &args[0] {
                                let v = matches!(values.get(*i).cloned().flatten(), Some(Val::Bool(true)));
                                args[0] = Expr::Bool(v);
                            }
                        }
                        _ => {}
                    }
                }
            });
        }
    }
    (out, verdict)
}
