//! Consistent renaming of a model program (for C17) and alias expansion.

use std::collections::HashMap;

use crate::model::*;

#[derive(Clone, Debug, Default)]
pub struct NameMap {
    pub vars: HashMap<String, String>,
    pub fns: HashMap<String, String>,
    pub aliases: HashMap<String, String>,
    pub witnesses: HashMap<String, String>,
    pub params: HashMap<String, String>,
}

fn m(map: &HashMap<String, String>, n: &str) -> String {
    map.get(n).cloned().unwrap_or_else(|| n.to_string())
}

fn ty(t: &Ty, nm: &NameMap) -> Ty {
    match t {
        Ty::Alias(n, inner) => Ty::Alias(m(&nm.aliases, n), Box::new(ty(inner, nm))),
        Ty::Builtin(n, inner) => Ty::Builtin(n, inner.clone()),
        Ty::Bool => Ty::Bool,
        Ty::UInt(n) => Ty::UInt(*n),
        Ty::Either(a, b) => Ty::either(ty(a, nm), ty(b, nm)),
        Ty::Option(a) => Ty::option(ty(a, nm)),
        Ty::Tuple(v) => Ty::Tuple(v.iter().map(|x| ty(x, nm)).collect()),
        Ty::Array(a, n) => Ty::array(ty(a, nm), *n),
        Ty::List(a, n) => Ty::list(ty(a, nm), *n),
    }
}

fn pat(p: &Pat, nm: &NameMap) -> Pat {
    match p {
        Pat::Id(n) => Pat::Id(m(&nm.vars, n)),
        Pat::Ignore => Pat::Ignore,
        Pat::Tuple(ps) => Pat::Tuple(ps.iter().map(|x| pat(x, nm)).collect()),
        Pat::Array(ps) => Pat::Array(ps.iter().map(|x| pat(x, nm)).collect()),
    }
}

fn expr(e: &Expr, nm: &NameMap) -> Expr {
    let bx = |x: &Expr| Box::new(expr(x, nm));
    match e {
        Expr::Var(n) => Expr::Var(m(&nm.vars, n)),
        Expr::Witness(n) => Expr::Witness(m(&nm.witnesses, n)),
        Expr::Param(n) => Expr::Param(m(&nm.params, n)),
        Expr::Tuple(v) => Expr::Tuple(v.iter().map(|x| expr(x, nm)).collect()),
        Expr::Array(v) => Expr::Array(v.iter().map(|x| expr(x, nm)).collect()),
        Expr::List(v) => Expr::List(v.iter().map(|x| expr(x, nm)).collect()),
        Expr::Left(x) => Expr::Left(bx(x)),
        Expr::Right(x) => Expr::Right(bx(x)),
        Expr::Some(x) => Expr::Some(bx(x)),
        Expr::Paren(x) => Expr::Paren(bx(x)),
        Expr::Block(stmts, last) => Expr::Block(
            stmts
                .iter()
                .map(|s| match s {
                    Stmt::Let(p, t, x) => Stmt::Let(pat(p, nm), ty(t, nm), expr(x, nm)),
                    Stmt::Expr(x) => Stmt::Expr(expr(x, nm)),
                })
                .collect(),
            last.as_ref().map(|x| bx(x)),
        ),
        Expr::Match { kind, scrut, left, right, left_first } => {
            let arm = |a: &Arm| Arm { binder: a.binder.as_ref().map(|(n, t)| (m(&nm.vars, n), ty(t, nm))), body: expr(&a.body, nm) };
            Expr::Match { kind: *kind, scrut: bx(scrut), left: Box::new(arm(left)), right: Box::new(arm(right)), left_first: *left_first }
        }
        Expr::Call(name, args) => {
            let name = match name {
                CallName::UnwrapLeft(t) => CallName::UnwrapLeft(ty(t, nm)),
                CallName::UnwrapRight(t) => CallName::UnwrapRight(ty(t, nm)),
                CallName::IsNone(t) => CallName::IsNone(ty(t, nm)),
                CallName::Cast(t) => CallName::Cast(ty(t, nm)),
                CallName::Fn(f) => CallName::Fn(m(&nm.fns, f)),
                CallName::Fold(f, b) => CallName::Fold(m(&nm.fns, f), *b),
                CallName::ForWhile(f) => CallName::ForWhile(m(&nm.fns, f)),
                other => other.clone(),
            };
            Expr::Call(name, args.iter().map(|x| expr(x, nm)).collect())
        }
        other => other.clone(),
    }
}

pub fn rename(p: &Program, nm: &NameMap) -> Program {
    Program {
        items: p
            .items
            .iter()
            .map(|it| match it {
                Item::Alias(n, t) => Item::Alias(m(&nm.aliases, n), ty(t, nm)),
                Item::Fn(f) => Item::Fn(FnDef {
                    name: if f.name == "main" { f.name.clone() } else { m(&nm.fns, &f.name) },
                    params: f.params.iter().map(|(n, t)| (m(&nm.vars, n), ty(t, nm))).collect(),
                    ret: f.ret.as_ref().map(|t| ty(t, nm)),
                    body: expr(&f.body, nm),
                }),
                Item::Mod(s) => Item::Mod(s.clone()),
            })
            .collect(),
    }
}

/// All names of a program by namespace.
pub fn names(p: &Program) -> NameMap {
    let mut nm = NameMap::default();
    fn pat_names(p: &Pat, out: &mut HashMap<String, String>) {
        let mut v = vec![];
        p.names(&mut v);
        for n in v {
            out.insert(n.clone(), n);
        }
    }
    fn ty_names(t: &Ty, out: &mut HashMap<String, String>) {
        match t {
            Ty::Alias(n, inner) => {
                out.insert(n.clone(), n.clone());
                ty_names(inner, out);
            }
            Ty::Either(a, b) => {
                ty_names(a, out);
                ty_names(b, out);
            }
            Ty::Option(a) | Ty::Array(a, _) | Ty::List(a, _) => ty_names(a, out),
            Ty::Tuple(v) => v.iter().for_each(|x| ty_names(x, out)),
            _ => {}
        }
    }
    for it in &p.items {
        match it {
            Item::Alias(n, t) => {
                nm.aliases.insert(n.clone(), n.clone());
                ty_names(t, &mut nm.aliases);
            }
            Item::Fn(f) => {
                if f.name != "main" {
                    nm.fns.insert(f.name.clone(), f.name.clone());
                }
                for (n, _) in &f.params {
                    nm.vars.insert(n.clone(), n.clone());
                }
                walk_expr(&f.body, &mut |e| match e {
                    Expr::Var(n) => {
                        nm.vars.insert(n.clone(), n.clone());
                    }
                    Expr::Witness(n) => {
                        nm.witnesses.insert(n.clone(), n.clone());
                    }
                    Expr::Param(n) => {
                        nm.params.insert(n.clone(), n.clone());
                    }
                    Expr::Block(stmts, _) => {
                        for s in stmts {
                            if let Stmt::Let(p, _, _) = s {
                                pat_names(p, &mut nm.vars);
                            }
                        }
                    }
                    Expr::Match { left, right, .. } => {
                        for a in [left, right] {
                            if let Some((n, _)) = &a.binder {
                                nm.vars.insert(n.clone(), n.clone());
                            }
                        }
                    }
                    _ => {}
                });
            }
            Item::Mod(_) => {}
        }
    }
    nm
}

/// Replace every alias by its definition (the alias items are dropped).
pub fn expand_aliases(p: &Program) -> Program {
    fn ty(t: &Ty) -> Ty {
        match t {
            Ty::Alias(_, inner) => inner.resolve(),
            Ty::Builtin(_, inner) => inner.resolve(),
            Ty::Either(a, b) => Ty::either(ty(a), ty(b)),
            Ty::Option(a) => Ty::option(ty(a)),
            Ty::Tuple(v) => Ty::Tuple(v.iter().map(ty).collect()),
            Ty::Array(a, n) => Ty::array(ty(a), *n),
            Ty::List(a, n) => Ty::list(ty(a), *n),
            other => other.clone(),
        }
    }
    fn expr(e: &mut Expr) {
        walk_expr_mut(e, &mut |x| match x {
            Expr::Block(stmts, _) => {
                for s in stmts.iter_mut() {
                    if let Stmt::Let(_, t, _) = s {
                        *t = ty(t);
                    }
                }
            }
            Expr::Match { left, right, .. } => {
                for a in [left, right] {
                    if let Some((_, t)) = &mut a.binder {
                        *t = ty(t);
                    }
                }
            }
            Expr::Call(name, _) => match name {
                CallName::UnwrapLeft(t) | CallName::UnwrapRight(t) | CallName::IsNone(t) | CallName::Cast(t) => *t = ty(t),
                _ => {}
            },
            _ => {}
        });
    }
    let mut items = vec![];
    for it in &p.items {
        match it {
            Item::Alias(..) => {}
            Item::Fn(f) => {
                let mut f = f.clone();
                for (_, t) in f.params.iter_mut() {
                    *t = ty(t);
                }
                f.ret = f.ret.as_ref().map(ty);
                expr(&mut f.body);
                items.push(Item::Fn(f));
            }
            Item::Mod(s) => items.push(Item::Mod(s.clone())),
        }
    }
    Program { items }
}

/// Wrap some sub-expressions in parentheses (choice function: site index -> bool).
pub fn parenthesise(p: &Program, choose: &mut dyn FnMut() -> bool) -> Program {
    let mut q = p.clone();
    for it in q.items.iter_mut() {
        if let Item::Fn(f) = it {
            wrap(&mut f.body, choose, true);
        }
    }
    q
}

/// Wrap sub-expressions of one expression (including itself) in parentheses.
pub fn wrap_expr(e: &mut Expr, choose: &mut dyn FnMut() -> bool) {
    wrap(e, choose, false)
}

fn wrap(e: &mut Expr, choose: &mut dyn FnMut() -> bool, is_body: bool) {
    // children first
    match e {
        Expr::Tuple(v) | Expr::Array(v) | Expr::List(v) => v.iter_mut().for_each(|x| wrap(x, choose, false)),
        Expr::Left(x) | Expr::Right(x) | Expr::Some(x) | Expr::Paren(x) => wrap(x, choose, false),
        Expr::Block(stmts, last) => {
            for s in stmts.iter_mut() {
                match s {
                    Stmt::Let(_, _, x) | Stmt::Expr(x) => wrap(x, choose, false),
                }
            }
            if let Some(l) = last {
                wrap(l, choose, false);
            }
        }
        Expr::Match { scrut, left, right, .. } => {
            wrap(scrut, choose, false);
            wrap(&mut left.body, choose, false);
            wrap(&mut right.body, choose, false);
        }
        Expr::Call(_, args) => args.iter_mut().for_each(|x| wrap(x, choose, false)),
        _ => {}
    }
    // function bodies must stay blocks; holes keep their observation pattern
    if !is_body && !matches!(e, Expr::Hole(_)) && choose() {
        let inner = std::mem::replace(e, Expr::None);
        *e = Expr::Paren(Box::new(inner));
    }
}
