//! Validity predicate for rendered compile errors (C20).

/// Check the rendered message `msg` for source `text`; `description` is the Display of the
/// underlying error when it could be obtained independently.
pub fn check_error_message(text: &str, msg: &str, description: Option<&str>) -> Result<ErrInfo, String> {
    let src_lines: Vec<&str> = text.split('\n').collect();
    let n_src = src_lines.len();
    let mut lines = msg.split('\n');
    let header = lines.next().unwrap_or("");
    // header: pad + " |"
    let Some(w) = header.find(" |") else {
        return Err(format!("first line `{header}` is not `<pad> |`"));
    };
    if header.len() != w + 2 || !header[..w].chars().all(|c| c == ' ') || w == 0 {
        return Err(format!("first line `{header}` is not `<pad> |`"));
    }
    let mut quoted: Vec<usize> = vec![];
    let mut rest: Option<String> = None;
    let all: Vec<&str> = lines.collect();
    let mut i = 0;
    while i < all.len() {
        let l = all[i];
        if l.len() >= w + 2 && l.as_bytes()[..w].iter().all(|b| *b == b' ') && &l.as_bytes()[w..w + 2] == b" |" {
            // underline line: everything from here on is underline + description
            rest = Some(all[i..].join("\n"));
            break;
        }
        // numbered line: right-aligned number (may be wider than w only if the renderer is wrong)
        let Some(bar) = l.find(" | ").or_else(|| if l.ends_with(" |") { Some(l.len() - 2) } else { None }) else {
            return Err(format!("line `{l}` is neither `N | text` nor the underline line"));
        };
        let num = l[..bar].trim_start();
        if num.is_empty() || !num.chars().all(|c| c.is_ascii_digit()) {
            return Err(format!("line `{l}` does not start with a line number"));
        }
        let n: usize = num.parse().map_err(|_| format!("bad line number in `{l}`"))?;
        let quoted_text = if l.len() >= bar + 3 { &l[bar + 3..] } else { "" };
        if n == 0 || n > n_src {
            return Err(format!("quoted line number {n} does not exist in a file of {n_src} lines"));
        }
        let src = src_lines[n - 1];
        let src_stripped = src.strip_suffix('\r').unwrap_or(src);
        // a `\r` directly before `\n` belongs to the line terminator and must not be quoted;
        // a lone `\r` at the very end of the file (no `\n` after it) may or may not be
        let is_last_segment = n == n_src;
        let ok = quoted_text == src_stripped || (is_last_segment && quoted_text == src);
        if !ok {
            return Err(format!("line {n} is quoted as `{quoted_text}` but the source line is `{src_stripped}`"));
        }
        if let Some(last) = quoted.last() {
            if n != last + 1 {
                return Err(format!("quoted line numbers are not consecutive: {last} then {n}"));
            }
        }
        quoted.push(n);
        i += 1;
    }
    let Some(rest) = rest else {
        return Err("no underline line (`<pad> |...^^^ description`) found".to_string());
    };
    let after_bar = &rest[w + 2..];
    let body = after_bar.trim_start_matches(' ');
    let desc_part = body.trim_start_matches('^');
    let desc_part = desc_part.strip_prefix(' ').unwrap_or(desc_part);
    if desc_part.trim().is_empty() {
        return Err("the message has no description after the underline".to_string());
    }
    if let Some(d) = description {
        if !msg.ends_with(d) {
            return Err(format!("the message does not end with the description of the error `{d}`"));
        }
    }
    Ok(ErrInfo {
        first_line: quoted.first().copied(),
        n_quoted: quoted.len(),
    })
}

pub struct ErrInfo {
    pub first_line: Option<usize>,
    pub n_quoted: usize,
}
