//! Jet table (documented signatures, golden/jets.tsv) and native closed-form references
//! for the arithmetic / comparison / bit-logic core jets, written from the Simplicity
//! specification.

use std::collections::BTreeMap;
use std::sync::OnceLock;

use crate::model::{Ty, Val, U256};
use crate::typarse;

#[derive(Clone, Debug)]
pub struct JetSig {
    pub name: String,
    pub params: Vec<Ty>,
    pub ret: Ty,
}

const TSV: &str = include_str!("../../golden/jets.tsv");

pub fn table() -> &'static BTreeMap<String, JetSig> {
    static T: OnceLock<BTreeMap<String, JetSig>> = OnceLock::new();
    T.get_or_init(|| {
        let mut m = BTreeMap::new();
        for line in TSV.lines() {
            if line.trim().is_empty() || line.starts_with('#') {
                continue;
            }
            let cols: Vec<&str> = line.split('\t').collect();
            let name = cols[0].to_string();
            let params = typarse::parse_params(cols[1]).unwrap_or_else(|| panic!("bad params for {name}: {}", cols[1]));
            let ret = typarse::parse_ty(cols[2]).unwrap_or_else(|| panic!("bad result for {name}: {}", cols[2]));
            m.insert(name.clone(), JetSig { name, params, ret });
        }
        m
    })
}

pub fn sig(name: &str) -> Option<&'static JetSig> {
    table().get(name)
}

pub const RESERVED: [&str; 2] = ["verify", "check_sig_verify"];

/// A leaf of a flattened argument: bit width and value (bool = width 0 marker).
#[derive(Clone, Copy, Debug, PartialEq, Eq)]
pub struct Leaf {
    pub bits: u16,
    pub is_bool: bool,
    pub v: u128,
}

fn flatten(v: &Val, out: &mut Vec<Leaf>) -> Option<()> {
    match v {
        Val::Bool(b) => out.push(Leaf { bits: 1, is_bool: true, v: *b as u128 }),
        Val::UInt(bits, x) => {
            if *bits > 128 {
                return None;
            }
            out.push(Leaf { bits: *bits, is_bool: false, v: x.lo })
        }
        Val::Tuple(vs) => {
            for x in vs {
                flatten(x, out)?;
            }
        }
        _ => return None,
    }
    Some(())
}

/// Rebuild a value of type `ty` from leaves in order.
fn unflatten(ty: &Ty, leaves: &mut std::slice::Iter<u128>) -> Option<Val> {
    match ty.resolved_head() {
        Ty::Bool => Some(Val::Bool(*leaves.next()? != 0)),
        Ty::UInt(n) => {
            let v = *leaves.next()?;
            if *n < 128 && v >> *n != 0 {
                return None;
            }
            Some(Val::UInt(*n, U256::from_u128(v)))
        }
        Ty::Tuple(ts) => {
            let mut out = vec![];
            for t in ts {
                out.push(unflatten(t, leaves)?);
            }
            Some(Val::Tuple(out))
        }
        _ => None,
    }
}

fn mask(n: u32) -> u128 {
    if n >= 128 {
        u128::MAX
    } else {
        (1u128 << n) - 1
    }
}

/// Split `name` into family and numeric suffixes: `left_pad_low_1_8` -> ("left_pad_low", [1, 8]).
pub fn family(name: &str) -> (String, Vec<u32>) {
    let parts: Vec<&str> = name.split('_').collect();
    let mut nums = vec![];
    let mut end = parts.len();
    while end > 0 {
        if let Ok(n) = parts[end - 1].parse::<u32>() {
            nums.insert(0, n);
            end -= 1;
        } else {
            break;
        }
    }
    (parts[..end].join("_"), nums)
}

/// Closed-form meaning. `None`: no reference for this jet. `Some(Err(()))`: the jet fails.
/// Leaves are the flattened arguments in written order.
fn closed_form(fam: &str, nums: &[u32], a: &[u128]) -> Option<Result<Vec<u128>, ()>> {
    let n = *nums.first()?;
    let m = mask(n);
    let b = |x: bool| x as u128;
    let r = match (fam, a.len()) {
        ("low", 0) => vec![0],
        ("high", 0) => vec![m],
        ("one", 0) => vec![1],
        ("complement", 1) => vec![!a[0] & m],
        ("and", 2) => vec![a[0] & a[1]],
        ("or", 2) => vec![a[0] | a[1]],
        ("xor", 2) => vec![a[0] ^ a[1]],
        ("maj", 3) => vec![(a[0] & a[1]) | (a[0] & a[2]) | (a[1] & a[2])],
        ("xor_xor", 3) => vec![a[0] ^ a[1] ^ a[2]],
        ("ch", 3) => vec![(a[0] & a[1]) | (!a[0] & m & a[2])],
        ("some", 1) => vec![b(a[0] != 0)],
        ("all", 1) => vec![b(a[0] == m)],
        ("eq", 2) => vec![b(a[0] == a[1])],
        ("is_zero", 1) => vec![b(a[0] == 0)],
        ("is_one", 1) => vec![b(a[0] == 1)],
        ("le", 2) => vec![b(a[0] <= a[1])],
        ("lt", 2) => vec![b(a[0] < a[1])],
        ("min", 2) => vec![a[0].min(a[1])],
        ("max", 2) => vec![a[0].max(a[1])],
        ("median", 3) => {
            let mut v = [a[0], a[1], a[2]];
            v.sort();
            vec![v[1]]
        }
        ("add", 2) if n <= 64 => {
            let s = a[0] + a[1];
            vec![s >> n, s & m]
        }
        ("full_add", 3) if n <= 64 => {
            let s = a[1] + a[2] + a[0];
            vec![s >> n, s & m]
        }
        ("increment", 1) if n <= 64 => {
            let s = a[0] + 1;
            vec![s >> n, s & m]
        }
        ("full_increment", 2) if n <= 64 => {
            let s = a[1] + a[0];
            vec![s >> n, s & m]
        }
        ("subtract", 2) if n <= 64 => {
            let d = a[0].wrapping_sub(a[1]);
            vec![b(a[0] < a[1]), d & m]
        }
        ("full_subtract", 3) if n <= 64 => {
            let sub = a[2] + a[0];
            vec![b(a[1] < sub), a[1].wrapping_sub(sub) & m]
        }
        ("negate", 1) if n <= 64 => vec![b(a[0] != 0), 0u128.wrapping_sub(a[0]) & m],
        ("decrement", 1) if n <= 64 => vec![b(a[0] == 0), a[0].wrapping_sub(1) & m],
        ("full_decrement", 2) if n <= 64 => vec![b(a[1] < a[0]), a[1].wrapping_sub(a[0]) & m],
        ("multiply", 2) if n <= 64 => vec![a[0] * a[1]],
        ("full_multiply", 4) if n <= 64 => vec![a[0] * a[1] + a[2] + a[3]],
        ("div_mod", 2) if nums.len() == 1 => {
            if a[1] == 0 {
                vec![0, a[0]]
            } else {
                vec![a[0] / a[1], a[0] % a[1]]
            }
        }
        ("divide", 2) => vec![if a[1] == 0 { 0 } else { a[0] / a[1] }],
        ("modulo", 2) => vec![if a[1] == 0 { a[0] } else { a[0] % a[1] }],
        ("divides", 2) => vec![b(if a[0] == 0 { a[1] == 0 } else { a[1] % a[0] == 0 })],
        ("left_pad_low", 1) if nums.len() == 2 => vec![a[0]],
        ("left_pad_high", 1) if nums.len() == 2 => {
            let (s, d) = (nums[0], nums[1]);
            vec![(mask(d) & !mask(s)) | a[0]]
        }
        ("left_extend", 1) if nums.len() == 2 => {
            let (s, d) = (nums[0], nums[1]);
            let msb = (a[0] >> (s - 1)) & 1;
            vec![if msb == 1 { (mask(d) & !mask(s)) | a[0] } else { a[0] }]
        }
        ("right_pad_low", 1) if nums.len() == 2 => {
            let (s, d) = (nums[0], nums[1]);
            vec![a[0] << (d - s)]
        }
        ("right_pad_high", 1) if nums.len() == 2 => {
            let (s, d) = (nums[0], nums[1]);
            vec![(a[0] << (d - s)) | mask(d - s)]
        }
        ("right_extend", 1) if nums.len() == 2 => {
            let (s, d) = (nums[0], nums[1]);
            let lsb = a[0] & 1;
            vec![(a[0] << (d - s)) | if lsb == 1 { mask(d - s) } else { 0 }]
        }
        ("leftmost", 1) if nums.len() == 2 => {
            let (s, d) = (nums[0], nums[1]);
            vec![a[0] >> (s - d)]
        }
        ("rightmost", 1) if nums.len() == 2 => {
            let d = nums[1];
            vec![a[0] & mask(d)]
        }
        ("left_shift", 2) => {
            let k = a[0];
            vec![if k >= n as u128 { 0 } else { (a[1] << k) & m }]
        }
        ("right_shift", 2) => {
            let k = a[0];
            vec![if k >= n as u128 { 0 } else { a[1] >> k }]
        }
        ("left_shift_with", 3) => {
            let (bit, k, x) = (a[0], a[1], a[2]);
            let k = k.min(n as u128) as u32;
            let fill = if bit == 1 { mask(k) } else { 0 };
            vec![if k >= n { fill & m } else { ((x << k) & m) | fill }]
        }
        ("right_shift_with", 3) => {
            let (bit, k, x) = (a[0], a[1], a[2]);
            let k = k.min(n as u128) as u32;
            let fill = if bit == 1 { m & !mask(n - k) } else { 0 };
            vec![if k >= n { fill } else { (x >> k) | fill }]
        }
        ("left_rotate", 2) => {
            let k = (a[0] % n as u128) as u32;
            vec![if k == 0 { a[1] } else { ((a[1] << k) | (a[1] >> (n - k))) & m }]
        }
        ("right_rotate", 2) => {
            let k = (a[0] % n as u128) as u32;
            vec![if k == 0 { a[1] } else { ((a[1] >> k) | (a[1] << (n - k))) & m }]
        }
        ("full_left_shift", 2) if nums.len() == 2 => {
            // (x: u_a, y: u_b) -> (u_b, u_a): the bit string x||y read as (b bits, a bits)
            let (wa, wb) = (nums[0], nums[1]);
            let s = (a[0] << wb) | a[1];
            vec![s >> wa, s & mask(wa)]
        }
        ("full_right_shift", 2) if nums.len() == 2 => {
            // (y: u_b, x: u_a) -> (u_a, u_b): the bit string y||x read as (a bits, b bits)
            let (wa, wb) = (nums[0], nums[1]);
            let s = (a[0] << wa) | a[1];
            vec![s >> wb, s & mask(wb)]
        }
        _ => return None,
    };
    Some(Ok(r))
}

/// Has this jet a native reference?
pub fn has_reference(name: &str) -> bool {
    let Some(s) = sig(name) else { return false };
    let (fam, nums) = family(name);
    // probe with zero arguments of the right arity
    let mut n_leaves = 0usize;
    for p in &s.params {
        match count_leaves(p) {
            Some(k) => n_leaves += k,
            None => return false,
        }
    }
    if count_leaves(&s.ret).is_none() {
        return false;
    }
    if name == "eq_256" {
        return true;
    }
    closed_form(&fam, &nums, &vec![0u128; n_leaves]).is_some()
}

fn count_leaves(t: &Ty) -> Option<usize> {
    match t.resolved_head() {
        Ty::Bool => Some(1),
        Ty::UInt(n) if *n <= 128 => Some(1),
        Ty::Tuple(ts) => ts.iter().map(count_leaves).sum(),
        _ => None,
    }
}

/// Evaluate a jet on argument values (one per documented parameter).
/// `None`: no reference. `Some(Err(()))`: the jet fails (panics the program).
pub fn eval(name: &str, args: &[Val]) -> Option<Result<Val, ()>> {
    let s = sig(name)?;
    if name == "eq_256" {
        return match (&args[0], &args[1]) {
            (Val::UInt(256, a), Val::UInt(256, b)) => Some(Ok(Val::Bool(a == b))),
            _ => None,
        };
    }
    let (fam, nums) = family(name);
    let mut leaves = vec![];
    for a in args {
        flatten(a, &mut leaves)?;
    }
    let raw: Vec<u128> = leaves.iter().map(|l| l.v).collect();
    match closed_form(&fam, &nums, &raw)? {
        Err(()) => Some(Err(())),
        Ok(out) => {
            let mut it = out.iter();
            let v = unflatten(&s.ret, &mut it)?;
            if it.next().is_some() {
                return None;
            }
            Some(Ok(v))
        }
    }
}

/// Names of all jets with a reference, grouped by (resolved) result type text.
pub fn referenced_by_result() -> &'static BTreeMap<String, Vec<String>> {
    static T: OnceLock<BTreeMap<String, Vec<String>>> = OnceLock::new();
    T.get_or_init(|| {
        let mut m: BTreeMap<String, Vec<String>> = BTreeMap::new();
        for (n, s) in table() {
            if RESERVED.contains(&n.as_str()) || !has_reference(n) {
                continue;
            }
            m.entry(s.ret.resolve().to_string()).or_default().push(n.clone());
        }
        m
    })
}
