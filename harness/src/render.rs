//! Renderer: model program -> source text, with tape-independent deterministic layout
//! variation driven by a small PRNG seeded from one tape element.

use crate::model::*;
use crate::tape::splitmix;

#[derive(Clone, Debug)]
pub struct Style {
    /// 0 = canonical pretty layout, 1 = light noise, 2 = heavy noise (comments, odd whitespace)
    pub noise: u8,
    pub crlf: bool,
    pub one_line: bool,
    pub tabs: bool,
    pub trailing_commas: bool,
    pub hex_upper: bool,
    pub underscores: bool,
    pub leading_zeros: bool,
    pub byte_arrays_as_hex: bool,
    pub seed: u64,
}

impl Default for Style {
    fn default() -> Self {
        Style::canonical()
    }
}

impl Style {
    pub fn canonical() -> Self {
        Style {
            noise: 0,
            crlf: false,
            one_line: false,
            tabs: false,
            trailing_commas: false,
            hex_upper: false,
            underscores: false,
            leading_zeros: false,
            byte_arrays_as_hex: false,
            seed: 0,
        }
    }
    pub fn from_seed(seed: u64) -> Self {
        let mut s = seed;
        let mut next = |n: u64| {
            s = splitmix(s);
            s % n
        };
        Style {
            noise: [0, 0, 1, 1, 2][next(5) as usize],
            crlf: next(4) == 0,
            one_line: next(5) == 0,
            tabs: next(4) == 0,
            trailing_commas: next(2) == 0,
            hex_upper: next(3) == 0,
            underscores: next(3) == 0,
            leading_zeros: next(4) == 0,
            byte_arrays_as_hex: next(2) == 0,
            seed: splitmix(seed ^ 0xabcdef),
        }
    }
    pub fn describe(&self) -> String {
        format!(
            "noise={} crlf={} one_line={} tabs={} tc={} HEX={} us={} lz={}",
            self.noise, self.crlf, self.one_line, self.tabs, self.trailing_commas, self.hex_upper, self.underscores, self.leading_zeros
        )
    }
}

#[derive(Clone, Debug, PartialEq, Eq)]
pub enum SiteKind {
    Assert,
    Panic,
    Jet,
    UnwrapLeft,
    UnwrapRight,
    Unwrap,
    Dbg,
}

/// A tracked call site: byte range of the whole call expression in the rendered text.
#[derive(Clone, Debug)]
pub struct Site {
    pub kind: SiteKind,
    pub start: usize,
    pub end: usize,
    pub in_function: Option<String>,
    /// byte range of the argument text for dbg!
    pub arg: Option<(usize, usize)>,
}

pub struct Writer {
    pub out: String,
    style: Style,
    rng: u64,
    depth: usize,
    need_space: bool,
    pub sites: Vec<Site>,
    cur_fn: Option<String>,
    at_line_start: bool,
    pending_mark: bool,
    last_mark: usize,
}

const NOISE_COMMENTS: &[&str] = &["/* c */", "/* ünï ✓ */", "/**/", "/* * / */"];
const NOISE_LINE_COMMENTS: &[&str] = &["// note", "// 日本語 ✓", "//", "// fn main() {"];

impl Writer {
    pub fn new(style: Style) -> Self {
        let rng = style.seed;
        Writer {
            out: String::new(),
            style,
            rng,
            depth: 0,
            need_space: false,
            sites: vec![],
            cur_fn: None,
            at_line_start: true,
            pending_mark: false,
            last_mark: 0,
        }
    }
    fn rnd(&mut self, n: u64) -> u64 {
        self.rng = splitmix(self.rng);
        self.rng % n
    }
    fn nlstr(&self) -> &'static str {
        if self.style.crlf {
            "\r\n"
        } else {
            "\n"
        }
    }
    /// Separator before the next token.
    fn sep(&mut self, want_space: bool) {
        let mandatory = self.need_space;
        self.need_space = false;
        if self.at_line_start {
            self.at_line_start = false;
            if !mandatory && self.style.noise == 0 {
                return;
            }
        }
        match self.style.noise {
            0 => {
                if mandatory || want_space {
                    self.out.push(' ');
                }
            }
            1 => {
                let r = self.rnd(12);
                if r == 0 {
                    let nl = self.nlstr();
                    self.out.push_str(nl);
                } else if r == 1 {
                    self.out.push('\t');
                } else if r == 2 {
                    self.out.push_str("  ");
                } else if mandatory || want_space || r < 6 {
                    self.out.push(' ');
                }
            }
            _ => {
                let r = self.rnd(16);
                match r {
                    0 | 1 => {
                        let nl = self.nlstr();
                        self.out.push_str(nl);
                    }
                    2 => self.out.push('\t'),
                    3 => {
                        let c = NOISE_COMMENTS[self.rnd(NOISE_COMMENTS.len() as u64) as usize];
                        self.out.push_str(c);
                    }
                    4 => {
                        let c = NOISE_LINE_COMMENTS[self.rnd(NOISE_LINE_COMMENTS.len() as u64) as usize];
                        self.out.push(' ');
                        self.out.push_str(c);
                        self.out.push('\n');
                    }
                    5 => {
                        self.out.push(' ');
                        let c = NOISE_COMMENTS[self.rnd(NOISE_COMMENTS.len() as u64) as usize];
                        self.out.push_str(c);
                        self.out.push(' ');
                    }
                    6 | 7 => {
                        if mandatory {
                            self.out.push(' ');
                        }
                    }
                    _ => {
                        if mandatory || want_space || r < 12 {
                            self.out.push(' ');
                        }
                    }
                }
            }
        }
    }
    /// token preceded by an optional (pretty: yes) space
    pub fn t(&mut self, s: &str) {
        self.sep(true);
        if self.pending_mark {
            self.pending_mark = false;
            self.last_mark = self.out.len();
        }
        self.out.push_str(s);
    }
    /// token glued to the previous one in canonical layout
    pub fn g(&mut self, s: &str) {
        self.sep(false);
        if self.pending_mark {
            self.pending_mark = false;
            self.last_mark = self.out.len();
        }
        self.out.push_str(s);
    }
    /// the next token must be separated by whitespace/comment
    pub fn must_space(&mut self) {
        self.need_space = true;
    }
    pub fn nl(&mut self) {
        if self.style.one_line {
            return;
        }
        let nl = self.nlstr();
        self.out.push_str(nl);
        let unit = if self.style.tabs { "\t" } else { "    " };
        for _ in 0..self.depth {
            self.out.push_str(unit);
        }
        self.at_line_start = true;
    }
    fn comma_list<T>(&mut self, items: &[T], mut f: impl FnMut(&mut Self, &T), allow_trailing: bool, force_trailing: bool) {
        for (i, it) in items.iter().enumerate() {
            if i > 0 {
                self.g(",");
            }
            if i == 0 {
                self.sep(false);
                self.at_line_start = true; // suppress the extra space of the first element
            }
            f(self, it);
        }
        if force_trailing || (allow_trailing && !items.is_empty() && self.style.trailing_commas && self.rnd(2) == 0) {
            self.g(",");
        }
    }

    pub fn ty(&mut self, ty: &Ty) {
        match ty {
            Ty::Bool => self.t("bool"),
            Ty::UInt(n) => self.t(&format!("u{n}")),
            Ty::Alias(n, _) => self.t(n),
            Ty::Builtin(n, _) => self.t(n),
            Ty::Either(a, b) => {
                self.t("Either<");
                self.at_line_start = true;
                self.ty(a);
                self.g(",");
                self.ty(b);
                self.g(">");
            }
            Ty::Option(a) => {
                self.t("Option<");
                self.at_line_start = true;
                self.ty(a);
                self.g(">");
            }
            Ty::Tuple(v) => {
                self.t("(");
                let force = v.len() == 1;
                self.comma_list(v, |w, x| w.ty(x), v.len() > 1, force);
                self.g(")");
            }
            Ty::Array(a, n) => {
                self.t("[");
                self.at_line_start = true;
                self.ty(a);
                self.g(";");
                self.t(&n.to_string());
                self.g("]");
            }
            Ty::List(a, n) => {
                self.t("List<");
                self.at_line_start = true;
                self.ty(a);
                self.g(",");
                self.t(&n.to_string());
                self.g(">");
            }
        }
    }

    pub fn pat(&mut self, p: &Pat) {
        match p {
            Pat::Id(n) => self.t(n),
            Pat::Ignore => self.t("_"),
            Pat::Tuple(ps) => {
                self.t("(");
                let force = ps.len() == 1;
                self.comma_list(ps, |w, x| w.pat(x), ps.len() > 1, force);
                self.g(")");
            }
            Pat::Array(ps) => {
                self.t("[");
                self.comma_list(ps, |w, x| w.pat(x), true, false);
                self.g("]");
            }
        }
    }

    fn decorate_digits(&mut self, digits: &str, allow_lz: bool) -> String {
        let mut s = digits.to_string();
        if allow_lz && self.style.leading_zeros && self.rnd(3) == 0 {
            let k = 1 + self.rnd(3) as usize;
            s = format!("{}{}", "0".repeat(k), s);
        }
        if self.style.underscores && self.rnd(2) == 0 {
            let mut o = String::new();
            for (i, c) in s.chars().enumerate() {
                if i > 0 && self.rnd(3) == 0 {
                    o.push('_');
                }
                o.push(c);
            }
            if self.rnd(4) == 0 {
                o.push('_');
            }
            s = o;
        }
        s
    }

    pub fn int(&mut self, v: U256, bits: Option<u16>, style: LitStyle) {
        let text = match (style, bits) {
            (LitStyle::Bin, Some(b)) => {
                let d = v.to_bin(b);
                format!("0b{}", self.decorate_digits(&d, false))
            }
            (LitStyle::Hex, Some(b)) if b >= 8 => {
                let mut d = v.to_hex(b);
                if self.style.hex_upper {
                    d = d.to_uppercase();
                }
                format!("0x{}", self.decorate_digits(&d, false))
            }
            _ => {
                let d = v.to_decimal();
                self.decorate_digits(&d, true)
            }
        };
        self.t(&text);
    }

    /// Render an expression. `ty` is the expected type when known (needed for literal widths).
    pub fn expr(&mut self, e: &Expr, ty: Option<&Ty>) {
        match e {
            Expr::Bool(b) => self.t(if *b { "true" } else { "false" }),
            Expr::Int(v, bits, st) => self.int(*v, Some(*bits), *st),
            Expr::RawLit(s) => self.t(s),
            Expr::HexBytes(b) => {
                let mut d: String = b.iter().map(|x| format!("{x:02x}")).collect();
                if self.style.hex_upper {
                    d = d.to_uppercase();
                }
                let d = self.decorate_digits(&d, false);
                self.t(&format!("0x{d}"));
            }
            Expr::Var(n) => self.t(n),
            Expr::Witness(n) => self.t(&format!("witness::{n}")),
            Expr::Param(n) => self.t(&format!("param::{n}")),
            Expr::Hole(i) => self.t(&format!("HOLE{i}")),
            Expr::Tuple(v) => {
                let tys: Option<Vec<&Ty>> = ty.and_then(|t| match t.resolved_head() {
                    Ty::Tuple(ts) if ts.len() == v.len() => Some(ts.iter().collect()),
                    _ => None,
                });
                self.t("(");
                for (i, x) in v.iter().enumerate() {
                    if i > 0 {
                        self.g(",");
                    } else {
                        self.sep(false);
                        self.at_line_start = true;
                    }
                    self.expr(x, tys.as_ref().map(|t| t[i]));
                }
                if v.len() == 1 || (v.len() > 1 && self.style.trailing_commas && self.rnd(2) == 0) {
                    self.g(",");
                }
                self.g(")");
            }
            Expr::Array(v) => {
                let el = ty.and_then(|t| match t.resolved_head() {
                    Ty::Array(a, _) => Some(a.as_ref()),
                    _ => None,
                });
                self.t("[");
                self.comma_list(v, |w, x| w.expr(x, el), true, false);
                self.g("]");
            }
            Expr::List(v) => {
                let el = ty.and_then(|t| match t.resolved_head() {
                    Ty::List(a, _) => Some(a.as_ref()),
                    _ => None,
                });
                self.t("list![");
                self.comma_list(v, |w, x| w.expr(x, el), true, false);
                self.g("]");
            }
            Expr::Left(x) => {
                let it = ty.and_then(|t| match t.resolved_head() {
                    Ty::Either(a, _) => Some(a.as_ref()),
                    _ => None,
                });
                self.t("Left(");
                self.at_line_start = true;
                self.expr(x, it);
                self.g(")");
            }
            Expr::Right(x) => {
                let it = ty.and_then(|t| match t.resolved_head() {
                    Ty::Either(_, b) => Some(b.as_ref()),
                    _ => None,
                });
                self.t("Right(");
                self.at_line_start = true;
                self.expr(x, it);
                self.g(")");
            }
            Expr::Some(x) => {
                let it = ty.and_then(|t| match t.resolved_head() {
                    Ty::Option(a) => Some(a.as_ref()),
                    _ => None,
                });
                self.t("Some(");
                self.at_line_start = true;
                self.expr(x, it);
                self.g(")");
            }
            Expr::None => self.t("None"),
            Expr::Paren(x) => {
                self.t("(");
                self.at_line_start = true;
                self.expr(x, ty);
                self.g(")");
            }
            Expr::Block(stmts, last) => self.block(stmts, last.as_deref(), ty),
            Expr::Match { kind, scrut, left, right, left_first } => {
                self.t("match");
                self.must_space();
                let sty = match kind {
                    MatchKind::Bool => Some(Ty::Bool),
                    MatchKind::Option => right.binder.as_ref().map(|(_, t)| Ty::option(t.clone())),
                    MatchKind::Either => match (&left.binder, &right.binder) {
                        (Some((_, a)), Some((_, b))) => Some(Ty::either(a.clone(), b.clone())),
                        _ => None,
                    },
                };
                self.expr(scrut, sty.as_ref());
                self.t("{");
                self.depth += 1;
                let arms: [(&Arm, bool); 2] = if *left_first { [(left, true), (right, false)] } else { [(right, false), (left, true)] };
                for (arm, is_left) in arms {
                    self.nl();
                    let ctor = match (kind, is_left) {
                        (MatchKind::Bool, true) => "false",
                        (MatchKind::Bool, false) => "true",
                        (MatchKind::Option, true) => "None",
                        (MatchKind::Option, false) => "Some(",
                        (MatchKind::Either, true) => "Left(",
                        (MatchKind::Either, false) => "Right(",
                    };
                    self.t(ctor);
                    if let Some((n, t)) = &arm.binder {
                        self.at_line_start = true;
                        self.t(n);
                        self.g(":");
                        self.ty(t);
                        self.g(")");
                    }
                    self.t("=>");
                    self.expr(&arm.body, ty);
                    let is_block = matches!(arm.body, Expr::Block(..));
                    if !is_block || self.rnd(2) == 0 {
                        self.g(",");
                    }
                }
                self.depth -= 1;
                self.nl();
                self.t("}");
            }
            Expr::Call(name, args) => {
                self.pending_mark = true;
                let kind = match name {
                    CallName::Jet(_) => Some(SiteKind::Jet),
                    CallName::UnwrapLeft(_) => Some(SiteKind::UnwrapLeft),
                    CallName::UnwrapRight(_) => Some(SiteKind::UnwrapRight),
                    CallName::Unwrap => Some(SiteKind::Unwrap),
                    CallName::Assert => Some(SiteKind::Assert),
                    CallName::Panic => Some(SiteKind::Panic),
                    CallName::Dbg => Some(SiteKind::Dbg),
                    _ => None,
                };
                match name {
                    CallName::Jet(n) => self.t(&format!("jet::{n}")),
                    CallName::UnwrapLeft(t) => {
                        self.t("unwrap_left::<");
                        self.at_line_start = true;
                        self.ty(t);
                        self.g(">");
                    }
                    CallName::UnwrapRight(t) => {
                        self.t("unwrap_right::<");
                        self.at_line_start = true;
                        self.ty(t);
                        self.g(">");
                    }
                    CallName::IsNone(t) => {
                        self.t("is_none::<");
                        self.at_line_start = true;
                        self.ty(t);
                        self.g(">");
                    }
                    CallName::Unwrap => self.t("unwrap"),
                    CallName::Assert => self.t("assert!"),
                    CallName::Panic => self.t("panic!"),
                    CallName::Dbg => self.t("dbg!"),
                    CallName::Cast(t) => {
                        self.t("<");
                        self.at_line_start = true;
                        self.ty(t);
                        self.g(">::into");
                    }
                    CallName::Fn(n) => self.t(n),
                    CallName::Fold(n, b) => {
                        self.t("fold::<");
                        self.at_line_start = true;
                        self.t(n);
                        self.g(",");
                        self.t(&b.to_string());
                        self.g(">");
                    }
                    CallName::ForWhile(n) => {
                        self.t("for_while::<");
                        self.at_line_start = true;
                        self.t(n);
                        self.g(">");
                    }
                }
                let start = self.last_mark;
                self.g("(");
                let arg_start = self.out.len();
                for (i, a) in args.iter().enumerate() {
                    if i > 0 {
                        self.g(",");
                    } else {
                        self.sep(false);
                        self.at_line_start = true;
                    }
                    self.expr(a, None);
                }
                self.g(")");
                let end = self.out.len();
                // everything between the parentheses, including comments before `)`
                let arg_end = end - 1;
                if let Some(kind) = kind {
                    let arg = if kind == SiteKind::Dbg { Some((arg_start, arg_end)) } else { None };
                    self.sites.push(Site {
                        kind,
                        start,
                        end,
                        in_function: self.cur_fn.clone(),
                        arg,
                    });
                }
            }
        }
    }

    fn block(&mut self, stmts: &[Stmt], last: Option<&Expr>, ty: Option<&Ty>) {
        self.t("{");
        self.depth += 1;
        for s in stmts {
            self.nl();
            match s {
                Stmt::Let(p, t, e) => {
                    self.t("let");
                    self.must_space();
                    self.pat(p);
                    self.g(":");
                    self.ty(t);
                    self.t("=");
                    self.expr(e, Some(t));
                    self.g(";");
                }
                Stmt::Expr(e) => {
                    let u = Ty::unit();
                    self.expr(e, Some(&u));
                    self.g(";");
                }
            }
        }
        if let Some(l) = last {
            self.nl();
            self.expr(l, ty);
        }
        self.depth -= 1;
        self.nl();
        self.t("}");
    }

    pub fn function(&mut self, f: &FnDef) {
        self.cur_fn = if f.name == "main" { None } else { Some(f.name.clone()) };
        self.t("fn");
        self.must_space();
        self.t(&f.name);
        self.g("(");
        for (i, (n, t)) in f.params.iter().enumerate() {
            if i > 0 {
                self.g(",");
            } else {
                self.sep(false);
                self.at_line_start = true;
            }
            self.t(n);
            self.g(":");
            self.ty(t);
        }
        self.g(")");
        if let Some(r) = &f.ret {
            self.t("->");
            self.ty(r);
        }
        let rt = f.ret_ty();
        match &f.body {
            Expr::Block(stmts, last) => self.block(stmts, last.as_deref(), Some(&rt)),
            other => {
                // bodies are always blocks in the grammar
                self.block(&[], Some(other), Some(&rt))
            }
        }
        self.cur_fn = None;
    }

    pub fn program(&mut self, p: &Program) {
        for (i, item) in p.items.iter().enumerate() {
            if i > 0 {
                self.nl();
                self.nl();
            }
            match item {
                Item::Alias(n, t) => {
                    self.t("type");
                    self.must_space();
                    self.t(n);
                    self.t("=");
                    self.ty(t);
                    self.g(";");
                }
                Item::Fn(f) => self.function(f),
                Item::Mod(body) => {
                    self.t(body);
                }
            }
        }
        // the end of the text: newline, nothing, or (with layout noise) a comment that the end of
        // input terminates
        if self.style.noise >= 1 && self.rnd(8) == 0 {
            match self.rnd(3) {
                0 => self.out.push_str(" // the end"),
                1 => self.out.push_str("\n// fn main() {"),
                _ => self.out.push_str(" /* end */"),
            }
        } else if !self.style.one_line || self.rnd(2) == 0 {
            let nl = self.nlstr();
            self.out.push_str(nl);
        }
    }
}

pub fn render(p: &Program, style: &Style) -> String {
    let mut w = Writer::new(style.clone());
    w.program(p);
    w.out
}

pub fn render_with_sites(p: &Program, style: &Style) -> (String, Vec<Site>) {
    let mut w = Writer::new(style.clone());
    w.program(p);
    (w.out, w.sites)
}

pub fn render_expr(e: &Expr, ty: Option<&Ty>, style: &Style) -> String {
    let mut w = Writer::new(style.clone());
    w.expr(e, ty);
    w.out
}

pub fn render_ty(t: &Ty) -> String {
    let mut w = Writer::new(Style::canonical());
    w.ty(t);
    w.out
}

/// Own value printer (independent of `Value::to_string`): value -> literal expression.
pub fn val_to_expr(v: &Val, ty: &Ty, bytes_as_hex: bool) -> Expr {
    match (v, ty.resolved_head()) {
        (Val::Bool(b), _) => Expr::Bool(*b),
        (Val::UInt(b, x), _) => Expr::Int(*x, *b, LitStyle::Dec),
        (Val::Left(x), Ty::Either(a, _)) => Expr::Left(Box::new(val_to_expr(x, a, bytes_as_hex))),
        (Val::Right(x), Ty::Either(_, b)) => Expr::Right(Box::new(val_to_expr(x, b, bytes_as_hex))),
        (Val::None, _) => Expr::None,
        (Val::Some(x), Ty::Option(a)) => Expr::Some(Box::new(val_to_expr(x, a, bytes_as_hex))),
        (Val::Tuple(vs), Ty::Tuple(ts)) => Expr::Tuple(vs.iter().zip(ts).map(|(v, t)| val_to_expr(v, t, bytes_as_hex)).collect()),
        (Val::Array(vs), Ty::Array(a, _)) => {
            if bytes_as_hex && !vs.is_empty() && matches!(a.resolved_head(), Ty::UInt(8)) {
                Expr::HexBytes(vs.iter().map(|v| v.as_u128().unwrap() as u8).collect())
            } else {
                Expr::Array(vs.iter().map(|v| val_to_expr(v, a, bytes_as_hex)).collect())
            }
        }
        (Val::List(vs), Ty::List(a, _)) => Expr::List(vs.iter().map(|v| val_to_expr(v, a, bytes_as_hex)).collect()),
        (v, t) => panic!("val_to_expr: {v:?} at {t}"),
    }
}

pub fn val_text(v: &Val, ty: &Ty) -> String {
    render_expr(&val_to_expr(v, ty, false), Some(ty), &Style::canonical())
}

/// `mod witness { const N: T = v; ... }` in the given order.
pub fn module_text(name: &str, items: &[(String, Val, Ty)], style: &Style) -> String {
    let mut w = Writer::new(style.clone());
    w.t("mod");
    w.must_space();
    w.t(name);
    w.t("{");
    w.depth += 1;
    for (n, v, t) in items {
        w.nl();
        w.t("const");
        w.must_space();
        w.t(n);
        w.g(":");
        w.ty(t);
        w.t("=");
        let e = val_to_expr(v, t, style.byte_arrays_as_hex);
        w.expr(&e, Some(t));
        w.g(";");
    }
    w.depth -= 1;
    w.nl();
    w.t("}");
    w.out
}
