//! Conversions between the model and simfony's public value / type constructors.
//! Only the Rust constructors are used (never the parser), so values built here are
//! independent of the text path under test.

use std::collections::HashMap;

use simfony::num::{NonZeroPow2Usize, U256 as SU256};
use simfony::str::WitnessName;
use simfony::types::{TypeConstructible, TypeInner, UIntType};
use simfony::value::{UIntValue, ValueConstructible, ValueInner};
use simfony::{Arguments, ResolvedType, Value, WitnessValues};

use crate::model::{Ty, Val, U256};

pub fn uint_type(bits: u16) -> UIntType {
    match bits {
        1 => UIntType::U1,
        2 => UIntType::U2,
        4 => UIntType::U4,
        8 => UIntType::U8,
        16 => UIntType::U16,
        32 => UIntType::U32,
        64 => UIntType::U64,
        128 => UIntType::U128,
        256 => UIntType::U256,
        _ => panic!("bad width {bits}"),
    }
}

pub fn uint_bits(t: UIntType) -> u16 {
    match t {
        UIntType::U1 => 1,
        UIntType::U2 => 2,
        UIntType::U4 => 4,
        UIntType::U8 => 8,
        UIntType::U16 => 16,
        UIntType::U32 => 32,
        UIntType::U64 => 64,
        UIntType::U128 => 128,
        UIntType::U256 => 256,
    }
}

pub fn to_resolved(ty: &Ty) -> ResolvedType {
    match ty {
        Ty::Alias(_, t) | Ty::Builtin(_, t) => to_resolved(t),
        Ty::Bool => ResolvedType::boolean(),
        Ty::UInt(n) => ResolvedType::from(uint_type(*n)),
        Ty::Either(a, b) => ResolvedType::either(to_resolved(a), to_resolved(b)),
        Ty::Option(a) => ResolvedType::option(to_resolved(a)),
        Ty::Tuple(v) => ResolvedType::tuple(v.iter().map(to_resolved)),
        Ty::Array(a, n) => ResolvedType::array(to_resolved(a), *n),
        Ty::List(a, n) => ResolvedType::list(to_resolved(a), NonZeroPow2Usize::new(*n).expect("list bound")),
    }
}

pub fn from_resolved(ty: &ResolvedType) -> Ty {
    match ty.as_inner() {
        TypeInner::Boolean => Ty::Bool,
        TypeInner::UInt(u) => Ty::UInt(uint_bits(*u)),
        TypeInner::Either(a, b) => Ty::either(from_resolved(a), from_resolved(b)),
        TypeInner::Option(a) => Ty::option(from_resolved(a)),
        TypeInner::Tuple(v) => Ty::Tuple(v.iter().map(|t| from_resolved(t)).collect()),
        TypeInner::Array(a, n) => Ty::array(from_resolved(a), *n),
        TypeInner::List(a, n) => Ty::list(from_resolved(a), n.get()),
        _ => panic!("unknown type constructor"),
    }
}

pub fn to_uint_value(bits: u16, v: U256) -> UIntValue {
    match bits {
        1 => UIntValue::u1(v.lo as u8).unwrap_or_else(|e| panic!("LIBRARY: UIntValue::u1({}) rejects a value in range: {e}", v.lo)),
        2 => UIntValue::u2(v.lo as u8).unwrap_or_else(|e| panic!("LIBRARY: UIntValue::u2({}) rejects a value in range: {e}", v.lo)),
        4 => UIntValue::u4(v.lo as u8).unwrap_or_else(|e| panic!("LIBRARY: UIntValue::u4({}) rejects a value in range: {e}", v.lo)),
        8 => UIntValue::U8(v.lo as u8),
        16 => UIntValue::U16(v.lo as u16),
        32 => UIntValue::U32(v.lo as u32),
        64 => UIntValue::U64(v.lo as u64),
        128 => UIntValue::U128(v.lo),
        256 => UIntValue::U256(SU256::from_byte_array(v.to_be_bytes())),
        _ => panic!("bad width"),
    }
}

pub fn from_uint_value(u: UIntValue) -> Val {
    match u {
        UIntValue::U1(n) => Val::uint(1, n as u128),
        UIntValue::U2(n) => Val::uint(2, n as u128),
        UIntValue::U4(n) => Val::uint(4, n as u128),
        UIntValue::U8(n) => Val::uint(8, n as u128),
        UIntValue::U16(n) => Val::uint(16, n as u128),
        UIntValue::U32(n) => Val::uint(32, n as u128),
        UIntValue::U64(n) => Val::uint(64, n as u128),
        UIntValue::U128(n) => Val::uint(128, n),
        UIntValue::U256(n) => Val::UInt(256, U256::from_be_bytes(n.to_byte_array())),
    }
}

/// Build a simfony `Value` of type `ty` from a model value (which must inhabit `ty`).
pub fn to_value(v: &Val, ty: &Ty) -> Value {
    match (v, ty.resolved_head()) {
        (Val::Bool(b), Ty::Bool) => Value::from(*b),
        (Val::UInt(bits, n), Ty::UInt(_)) => Value::from(to_uint_value(*bits, *n)),
        (Val::Left(x), Ty::Either(a, b)) => Value::left(to_value(x, a), to_resolved(b)),
        (Val::Right(x), Ty::Either(a, b)) => Value::right(to_resolved(a), to_value(x, b)),
        (Val::None, Ty::Option(a)) => Value::none(to_resolved(a)),
        (Val::Some(x), Ty::Option(a)) => Value::some(to_value(x, a)),
        (Val::Tuple(vs), Ty::Tuple(ts)) => Value::tuple(vs.iter().zip(ts).map(|(v, t)| to_value(v, t))),
        (Val::Array(vs), Ty::Array(a, _)) => Value::array(vs.iter().map(|v| to_value(v, a)), to_resolved(a)),
        (Val::List(vs), Ty::List(a, n)) => Value::list(
            vs.iter().map(|v| to_value(v, a)),
            to_resolved(a),
            NonZeroPow2Usize::new(*n).expect("bound"),
        ),
        (v, t) => panic!("value {v:?} does not inhabit {t}"),
    }
}

pub fn from_value(v: &Value) -> Val {
    match v.inner() {
        ValueInner::Boolean(b) => Val::Bool(*b),
        ValueInner::UInt(u) => from_uint_value(*u),
        ValueInner::Either(simfony::either::Either::Left(x)) => Val::Left(Box::new(from_value(x))),
        ValueInner::Either(simfony::either::Either::Right(x)) => Val::Right(Box::new(from_value(x))),
        ValueInner::Option(None) => Val::None,
        ValueInner::Option(Some(x)) => Val::Some(Box::new(from_value(x))),
        ValueInner::Tuple(vs) => Val::Tuple(vs.iter().map(from_value).collect()),
        ValueInner::Array(vs) => Val::Array(vs.iter().map(from_value).collect()),
        ValueInner::List(vs, _) => Val::List(vs.iter().map(from_value).collect()),
    }
}

pub fn name(s: &str) -> WitnessName {
    WitnessName::from_str_unchecked(s)
}

pub fn witness_values(items: &[(String, Val, Ty)]) -> WitnessValues {
    let mut m = HashMap::new();
    for (n, v, t) in items {
        m.insert(name(n), to_value(v, t));
    }
    WitnessValues::from(m)
}

pub fn arguments(items: &[(String, Val, Ty)]) -> Arguments {
    let mut m = HashMap::new();
    for (n, v, t) in items {
        m.insert(name(n), to_value(v, t));
    }
    Arguments::from(m)
}
