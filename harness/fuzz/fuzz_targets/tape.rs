#![no_main]
//! Generic libFuzzer target: the input bytes are the choice tape (little-endian u32 words) of the
//! stream selected by VCHECK_FUZZ_PROP / VCHECK_FUZZ_STREAM. A failure that is neither
//! harness-internal nor a known finding aborts, so libFuzzer saves the input.
use libfuzzer_sys::fuzz_target;

fuzz_target!(|data: &[u8]| {
    vcheck::fuzzglue::one(data);
});
